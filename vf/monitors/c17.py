"""C17 Batch jobs run in dependency order with failure propagation (LocalBackend).

Real code: hailtop.batch.Batch (new_job / depends_on / command / declare_resource_group / run ->
Batch._async_run DFS numbering + cycle test), Job._interpolate_command (resource-induced
dependencies), LocalBackend._async_run really executing `bash` subprocesses below a
tempfile.mkdtemp() scratch directory that is removed after every pipeline.

Events: every generated command appends `RUN <id>` to a shared log file when it starts, writes its
own output resource, appends `READ <id> <dep> <content>` for every resource it consumes from another
job and finally `exit 0/1` as generated.  After `Batch.run()` the monitor reads the log, the job
numbers (`Job._job_id`) and the exception (if any).

Oracle (DESIGN §C17; model = the generator's own edge list, never `Job._dependencies`):
  * numbering is a permutation of 1..n and a topological order of explicit ∪ resource-induced edges;
  * a cyclic pipeline makes run() raise while the log is still empty / absent;
  * skipped(j) <=> not always_run(j) and some direct dependency p has failed(p) or skipped(p)
    (least fixpoint, evaluated in dependency order; an always-run job that ran shields its children);
    executed set = all - skipped, every job at most once;
  * the execution log respects dependency order (and a consumer really reads its producer's file);
  * run() raises iff some executed job failed.

Histories (second and third phase): the same clauses for a Batch object that is built, run, edited and run again
(dry runs, failed runs, clean runs, rejected runs in between) - see the comment above gen_history.

Always-run flag ("skips exactly the NON-ALWAYS-RUN jobs"): whether a job is an always-run job is what the LAST `always_run(...)`
call on it said (`always_run()`, `always_run(True)`, `always_run(False)`; no call: it is not).  Half of the pipelines make 0..4 such
calls per job, anywhere between the job's creation and run() (motif: failing job <- job switched on and off again <- ordinary job);
in the LocalBackend histories the flag of jobs that an earlier run() skipped is set again in a later sitting.  The skip oracle is
unchanged: it uses the flag the generator asked for last.

Python jobs ("every pipeline built with the Batch DSL", dependencies "through a consumed resource"): a PythonJob consumes a
resource by receiving it as an argument of PythonJob.call() - positionally, as a keyword argument, inside lists / tuples /
dicts (nested) - and produces PythonResults (and the as_str / as_json / as_repr files derived from them).  Phase 'python'
mixes bash and python jobs in pipelines that the LocalBackend really executes (`python3 -c <the repository's wrapper>`;
the called functions append the same RUN / READ lines), the recording-backend histories mix them throughout; all oracles
above apply unchanged, the model edge is again what the generator asked for (this job received that job's resource).
"""
import contextlib
import io
import os
import shlex
import shutil
import tempfile
import warnings

PID = 'C17'
LEVEL = 'exploration'
RULE = (
    'seeded random pipelines of 1..8 bash jobs (no image => plain bash subprocesses): a random DAG over a hidden order '
    '(edge density 0.15..0.8) or (30 %) that DAG plus cycle-closing edges (self-loop, 2-cycle, long back edge, ring of '
    'resource-induced edges only); a quarter of the DAGs get the motif failed job <- succeeding always-run job <- ordinary job; every edge is '
    'explicit (depends_on), resource-induced (consumer command mentions producer.out), both, or through a declared '
    'resource group (whole group or one member); job creation, depends_on, always_run and command() calls are emitted '
    'as one random linear extension of the only constraints the DSL imposes (create before use, producer command before '
    'consumer command); random always_run flags and failing sets; in half of the pipelines the flag of a job is the outcome of 0..4 '
    'always_run() / always_run(True) / always_run(False) calls in sequence (last call decides; sequences 1, 11, 01, 101, 0101, 1011 for always-run jobs, '
    '-, 0, 10, 110, 010, 100 for the others), a quarter of the remaining DAGs get the motif failing job <- job switched on and off again '
    '<- ordinary job; in the LocalBackend histories a later sitting sets the flag again (75 %) on 1..2 jobs an earlier run() has seen, '
    'preferring jobs the first run skipped, and puts a new failing job in front of a job it switched off. A case is non-trivial when it has >= 2 jobs and >= 1 '
    'edge; distinct by (edge list with kinds, always_run vector, always_run call sequences, failing vector, creation order). quick 150 pipelines, '
    'thorough 6 shards x 800. '
    'HISTORIES (phases history / history_plan): one Batch object is built in 2..4 sittings, each closed by run() '
    '(a quarter dry runs): sitting 1 is an acyclic pipeline as above (60 %: one dependency forced to fail so that its '
    'dependents stay unsubmitted), every later sitting adds 0..3 jobs and edges new->old, old->new, new->new, old->old '
    'along a hidden order (40 % of the real-backend re-runs get the motif new failing job <- new ordinary job) and, for '
    'about half of the histories, closes a cycle: an ancestor made to depend on one of its (transitive) dependents '
    '(preferring jobs the first run skipped), self-loop on an old job, 2-cycle of old jobs, old job <-> new job, ring of '
    'new jobs only; cycle-closing edges are explicit, resource-induced or both; a rejected pipeline is run again (with or '
    'without further additions). Real LocalBackend (bash subprocesses; quick 60, thorough 6 x 300) and a recording '
    'backend with ServiceBackend\'s submission bookkeeping (a dry run leaves jobs unsubmitted; quick 300, thorough 6 x 1600). '
    'A history is distinct by (backend, per sitting: dry flag, new jobs, added edges with kinds, creation order; '
    'always_run and failing vectors). '
    'PYTHON JOBS (phase python: quick 40, thorough 6 x 150 pipelines of <= 5 jobs on the real LocalBackend; and every recording-backend '
    'history): each job is a PythonJob with a probability drawn per pipeline (executed 0 / .15 / .3, 85 % get one dependent forced to be a '
    'python job that consumes its dependency\'s resource, half of those with a failing producer and a not-always-run consumer; recording '
    'backend 0 / .25 / .5 / .8). A python job starts with a call whose PythonResult is what it offers to consumers; the resource-induced '
    'edges into a python job are dealt over calls of 1..3 producers each; the arguments of a call are the consumed resources (bash '
    'producer: file, resource-group member, whole group; python producer: the PythonResult or its as_str/as_json/as_repr file), in 30 % '
    'the job\'s own earlier result (no dependency may come of it) and plain values, with random contiguous runs of them wrapped 0..3 times '
    'into list / tuple / dict, the last 0..all top-level items passed by keyword; bash jobs consume python producers through the derived '
    'files; python jobs have no resource groups (such edges become plain resource edges). A python case is distinct additionally by '
    '(python vector, call argument trees).'
)
ASSUMPTIONS = [
    '/bin/bash and /bin/sh execute `echo >> file`, `read < file`, `exit N` faithfully; appends of < 100 bytes to the shared log by sequential subprocesses are ordered',
    'the generator\'s own edge list (what it asked the DSL for) is the dependency relation of the property',
    'Job._job_id is the job number the property speaks about',
    'a job is "always-run" iff the last always_run(...) call made on it before run() had a true argument (always_run() = always_run(True)); no call = not always-run',
    'histories: the recording backend (15 lines, subclass of the real hailtop.batch.backend.Backend) mirrors ServiceBackend\'s use of '
    'Batch._unsubmitted_jobs / Job._submitted; with it only the Batch-side clauses (numbering, cycle rejection, hand-over order) are decided',
    'histories: what a later run owes to jobs whose only bad dependency failed in an earlier run, to jobs that sat through a LocalBackend dry run, '
    'to edges added after the dependent executed and to already executed jobs is read as unspecified (counted, never a verdict)',
]
ASSUMPTIONS += [
    'python jobs: `python3` in the job subprocess is this interpreter (its directory is put first on PATH) and imports the same `dill` as the '
    'monitor process (the functional pickle-backed shim of vf/shims/pkgs/dill unless a real dill is installed) and the 40-line module of called '
    'functions written below a mkdtemp(); a self-test at start-up makes the run INCONCLUSIVE otherwise',
    'python jobs: a PythonResult itself is only passed to consumers that cannot run unless the producer ran in the same run (the wrapper unpickles it '
    'before the function is entered, so its absence would fail the consumer); always-run consumers and every bash consumer get the derived files, '
    'whose absence the reading side tolerates like the bash jobs do',
    'python jobs are not generated in the LocalBackend run / edit / re-run histories: a PythonJob that an earlier run() left unexecuted cannot be compiled by a '
    'later run() at all (KeyError in PythonJob._compile: both backends clear Batch._python_function_defs after every run) - outside the clauses of C17, reported separately',
]
TRUSTED_BASE = ['bash', 'the monitor\'s least-fixpoint skip model (20 lines)']
SHARDS = {'quick': 1, 'thorough': 6}  # fork/exec-bound: 16 concurrent shards cost 3x the CPU of 6 for the same 4800 pipelines in this sandbox
TIMEOUT = {'quick': 900, 'thorough': 1800}


def FLOORS(tier):
    # about half of the minimum over seeds 0..9 of what a complete quick run (150 pipelines) observes;
    # thorough = 6 shards x 800 pipelines = 32 x quick
    k = 1 if tier == 'quick' else 20
    return {
        'evaluations': 100 * k,
        'pipelines_dag': 60 * k,
        'pipelines_cyclic': 25 * k,
        'cyclic_rejected_before_any_marker': 25 * k,
        'cyclic_self': 4 * k,
        'cyclic_resource_only_cycle': 5 * k,
        'jobs_executed': 200 * k,
        'jobs_skipped': 40 * k,
        'jobs_failed': 60 * k,
        'skipped_via_skipped_parent': 4 * k,
        'always_run_ran_despite_bad_parent': 20 * k,
        'shielded_child_ran': 3 * k,
        'edges_resource_only': 50 * k,
        'edges_explicit_only': 50 * k,
        'edges_group': 50 * k,
        'dependency_created_after_dependent': 120 * k,
        'numbering_edges_checked': 200 * k,
        'execution_edges_checked': 100 * k,
        'resource_reads_observed': 60 * k,
        'runs_raised': 30 * k,
        'runs_clean': 10 * k,
        # run / edit / re-run histories on one Batch object (quick: 60 LocalBackend + 300 recording-backend histories;
        # about half of the minimum over seeds 0..4)
        'histories_local': 30 * k,
        'histories_plan': 150 * k,
        'rerun_runs_local': 40 * k,
        'rerun_runs_plan': 240 * k,
        'rerun_cyclic_rejected_before_any_marker': 140 * k,
        'rerun_cycle_through_numbered_jobs_local': 12 * k,
        'rerun_cycle_through_numbered_jobs_plan': 110 * k,
        'rerun_cycle_of_new_jobs_only': 10 * k,
        'rerun_cycle_through_executed_jobs': 80 * k,
        'rerun_cycle_through_skipped_jobs': 5 * k,
        'rerun_cycle_after_dry': 60 * k,
        'rerun_cycle_after_failed': 10 * k,
        'rerun_cycle_after_clean': 85 * k,
        'rerun_cycle_after_rejected': 25 * k,
        'rerun_cycle_closed_by_resource_edge': 55 * k,
        'rerun_dag_local': 22 * k,
        'rerun_dag_plan': 115 * k,
        'rerun_numbering_edges_checked': 1200 * k,
        'rerun_numbered_job_depends_on_new_job': 160 * k,
        'rerun_execution_edges_checked': 160 * k,
        'rerun_jobs_executed': 200 * k,
        'rerun_jobs_skipped': 17 * k,
        'rerun_previously_skipped_job_executed': 12 * k,
        'rerun_new_job_executed': 95 * k,
        # python jobs (PythonJob.call arguments as the consumed resource; about half of the minimum over seeds 0..4).
        # py_*: phase 'python', really executed by the LocalBackend (quick 40 pipelines, thorough 6 x 150 = 22 x quick)
        'py_pipelines': 14 * k,
        'py_calls': 14 * k,
        'py_consumed_resources': 14 * k,
        'py_jobs_executed': 9 * k,
        'py_consumer_edges_numbering_checked': 7 * k,
        'py_consumer_created_before_producer': 4 * k,
        'py_consumer_skipped_only_through_call_arguments': 3 * k,
        'py_reads_observed': 5 * k,
        'py_arg_plain': 5 * k,
        'py_arg_keyword': 6 * k,
        'py_arg_in_tuple': 4 * k,
        'py_arg_in_list': 3 * k,
        'py_arg_in_dict': 2 * k,
        'py_arg_nested': 6 * k,
        'py_calls_with_own_result': 4 * k,
        'py_bash_consumer_of_python_producer': 4 * k,
        'py_ref_python_result': 1 * k,
        'py_ref_converted_result_file': 3 * k,
        'py_cycle_through_call_argument_rejected': 1 * k,
        # plan_py_*: the recording-backend histories (quick 300, thorough 6 x 1600), bash and python jobs mixed
        'plan_py_histories': 125 * k,
        'plan_py_calls': 375 * k,
        'plan_py_consumed_resources': 430 * k,
        'plan_py_consumer_edges_numbering_checked': 385 * k,
        'plan_py_call_added_to_numbered_job': 24 * k,
        'plan_py_cycle_through_call_argument_rejected': 36 * k,
        'plan_py_arg_plain': 150 * k,
        'plan_py_arg_keyword': 200 * k,
        'plan_py_arg_in_tuple': 125 * k,
        'plan_py_arg_in_list': 70 * k,
        'plan_py_arg_in_dict': 60 * k,
        'plan_py_arg_nested': 130 * k,
        'plan_py_calls_with_several_producers': 45 * k,
        'plan_py_calls_with_own_result': 110 * k,
        'plan_py_bash_consumer_of_python_producer': 180 * k,
        'plan_py_ref_python_result': 100 * k,
        'plan_py_ref_converted_result_file': 110 * k,
        'plan_py_ref_group': 20 * k,
        # always-run flag as the outcome of a sequence of always_run() / always_run(True) / always_run(False) calls (about half of
        # the minimum over seeds 0..4).  flag_*: single executed pipelines (phases main + python); *_flag_*: LocalBackend histories
        'flag_calls_off': 120 * k,
        'flag_calls_on_explicit_true': 40 * k,
        'flag_jobs_reset': 55 * k,
        'flag_jobs_reraised': 15 * k,
        'flag_jobs_false_only': 7 * k,
        'flag_reset_job_skipped': 24 * k,  # the deciding class: flag was on, is off again, a dependency failed or was skipped
        'flag_reset_job_ran_unaffected': 27 * k,
        'flag_reraised_job_ran_despite_bad_parent': 5 * k,
        'flag_child_of_skipped_reset_job_skipped': 10 * k,
        'flag_false_only_job_skipped': 2 * k,
        'flag_call_sequences': 8,  # distinct call sequences seen (set size, not scaled)
        'history_first_flag_reset_job_due_with_bad_parent': 10 * k,
        'rerun_flag_changed_after_earlier_run_job_due': 8 * k,
        'rerun_flag_reset_job_due_with_bad_parent': 8 * k,
        'rerun_flag_switched_off_after_earlier_run_job_due_with_bad_parent': 2 * k,
        'rerun_flag_switched_on_for_skipped_job': 3 * k,
    }


# ------------------------------------------------------------------------------------------
# generation
# ------------------------------------------------------------------------------------------

EDGE_KINDS = ['explicit', 'explicit', 'resource', 'resource', 'both', 'group', 'group_member']
RES_KINDS = ('resource', 'group', 'group_member')

# ---- python jobs (PythonJob.call): how a consumed resource reaches the call ----
# a python producer offers its PythonResult itself (python consumers only) or one of the files derived from it
PY_FILE_REFS = ['as_str', 'as_json', 'as_repr']
PY_CONTAINERS = ['list', 'tuple', 'tuple', 'dict']
BASH_REF = {'resource': 'out', 'both': 'out', 'group': 'grp', 'group_member': 'grp.a'}


def gen_call_tree(rng, n_parts, own):
    """the argument list of one PythonJob.call(): leaves are the consumed resources (`part i`), optionally the job's own
    earlier result (`own`: source is the job itself, so no dependency may arise from it) and plain values; random
    contiguous runs of items are wrapped 0..3 times into a list / tuple / dict; the top-level items are passed
    positionally, the last 0..all of them as keyword arguments.  Returns [[is_keyword, node], ...]."""
    items = [['part', i] for i in range(n_parts)]
    if own:
        items.insert(rng.randint(0, len(items)), ['own'])
    for _ in range(rng.choice([0, 0, 1, 2])):
        items.insert(rng.randint(0, len(items)), [rng.choice(['none', 'num'])])
    for _ in range(rng.choice([0, 1, 1, 2, 2, 3])):
        lo = rng.randrange(len(items))
        hi = rng.randint(lo + 1, min(len(items), lo + 3))
        items[lo:hi] = [[rng.choice(PY_CONTAINERS), items[lo:hi]]]
    n_kw = min(rng.choice([0, 0, 1, 1, len(items)]), len(items))
    return [[i >= len(items) - n_kw, node] for i, node in enumerate(items)]


def call_tree_paths(top):
    """for every `part i`: the way from the call to the leaf, e.g. ('kw', 'tuple', 'list')"""
    out = {}

    def walk(node, path):
        if node[0] == 'part':
            out[node[1]] = path
        elif node[0] in ('list', 'tuple', 'dict'):
            for k in node[1]:
                walk(k, path + (node[0],))

    for is_kw, node in top:
        walk(node, ('kw' if is_kw else 'pos',))
    return out


def gen_pycalls(rng, j, consumed, py, raw_ok):
    """the .call()s by which python job j consumes `consumed` = [(d, kind)]: 1..3 producers per call"""
    consumed = list(consumed)
    rng.shuffle(consumed)
    calls = []
    while consumed:
        k = rng.choice([1, 1, 1, 2, 3])
        chunk, consumed = consumed[:k], consumed[k:]
        parts = []
        for d, kind in chunk:
            if py[d]:
                ref = rng.choice((['result', 'result', 'result'] if raw_ok else []) + PY_FILE_REFS)
            else:
                ref = BASH_REF[kind]
            parts.append([d, kind, ref])
        calls.append({'parts': parts, 'top': gen_call_tree(rng, len(parts), own=rng.random() < 0.3)})
    return calls


def gen_flag_calls(rng, final, rich, force_reset=False):
    """the always_run(...) calls made on one job, in call order; the LAST call decides whether the job is an always-run job
    (no call at all: it is not).  None stands for `always_run()`, True / False for `always_run(True)` / `always_run(False)`.
    rich=False: the one form the documentation shows (`always_run()` on always-run jobs, nothing on the others);
    force_reset (final False only): the flag was on at some point and is switched off again."""

    def on():
        return rng.choice([None, None, True])

    if final:
        if not rich:
            return [None]
        return rng.choice([[], [], [], [on()], [False], [on(), False], [False, on(), False], [on(), False, on()]]) + [on()]
    if force_reset:
        return rng.choice([[on(), False], [on(), False], [on(), on(), False], [False, on(), False], [on(), False, False]])
    if not rich:
        return []
    return rng.choice([[], [], [False], [on(), False], [on(), False], [on(), on(), False], [False, on(), False], [on(), False, False]])


def side_rng(rng, salt):
    """a second generator for the always_run call sequences, derived from the state of the case's generator WITHOUT drawing from
    it: everything else about a generated case stays what it was before the call sequences were added (replayable all the same)"""
    import random

    return random.Random(salt + repr(rng.getstate()))


def respread_flag_calls(frng, ordered, flag_calls):
    """ordered = a sitting's DSL calls in call order; flag_calls = {job: [None | True | False, ...]}: take the always_run ops of
    these jobs out and put the given sequences in - every call somewhere after the job's creation (anywhere, if the job was
    created in an earlier sitting), the calls on one job in their order"""
    out = [list(op) for op in ordered if not (op[0] == 'always_run' and op[1] in flag_calls)]
    for j in sorted(flag_calls):
        lo = next((i + 1 for i, op in enumerate(out) if op[0] == 'create' and op[1] == j), 0)
        for a in flag_calls[j]:
            at = frng.randint(lo, len(out))
            out.insert(at, ['always_run', j, a])
            lo = at + 1
    return out


def flag_class(calls):
    """what the always_run(...) calls made on one job so far amount to (calls as booleans, see flag_calls_of)"""
    if not calls:
        return 'none'
    if calls[-1]:
        return 'reraised' if not all(calls) else 'on'
    return 'reset' if any(calls) else 'false_only'


def flag_calls_of(ops, into=None):
    """{job: [bool, ...]} - the always_run(...) calls of an operation list in call order"""
    out = {} if into is None else into
    for name, j, arg in ops:
        if name == 'always_run':
            out.setdefault(j, []).append(True if arg is None else bool(arg))
    return out


def gen_case(rng, py=None, flag_motif=True):
    """py=None: bash jobs only (and exactly the draws of the bash-only generator).  py={'p': [...], 'n_max': n,
    'force': p}: every job is a PythonJob with a probability drawn from 'p'.  flag_motif=False: without the motif of a job
    whose always-run flag is switched on and off again below a failing job (the always_run call sequences are generated anyway)."""
    frng = side_rng(rng, 'flags')
    n = rng.choice([x for x in [1, 2, 2, 3, 3, 4, 4, 5, 5, 6, 6, 7, 8, 8] if py is None or x <= py.get('n_max', 8)])
    hidden = list(range(n))
    rng.shuffle(hidden)  # hidden[k] = job at position k of a valid order
    p_edge = rng.choice([0.15, 0.3, 0.3, 0.5, 0.8])
    edges = {}  # (dependent, dependency) -> kind
    for a in range(n):
        for b in range(a + 1, n):
            if rng.random() < p_edge:
                edges[(hidden[b], hidden[a])] = rng.choice(EDGE_KINDS)
    cyclic = rng.random() < 0.3
    cycle_shape = None
    if cyclic:
        shapes = ['self', 'self'] if n == 1 else ['self', 'two', 'back', 'back', 'resource_cycle', 'resource_cycle']
        cycle_shape = rng.choice(shapes)
        if cycle_shape == 'self':
            j = rng.randrange(n)
            edges[(j, j)] = 'explicit'  # a job cannot consume its own resource as an input
        elif cycle_shape == 'two':
            a, b = rng.sample(range(n), 2)
            edges[(a, b)] = rng.choice(['explicit', 'resource', 'both'])
            edges[(b, a)] = rng.choice(['explicit', 'resource', 'both'])
        elif cycle_shape == 'resource_cycle':
            # a cycle made of resource-induced edges only
            k = rng.randint(2, n)
            ring = rng.sample(range(n), k)
            for x in range(k):
                edges[(ring[x], ring[(x + 1) % k])] = 'resource'
        else:
            # close a cycle with one back edge over the hidden order: earliest depends on a (transitive) dependent
            lo = rng.randrange(n - 1)
            hi = rng.randrange(lo + 1, n)
            # make sure hidden[hi] really reaches hidden[lo]: add a chain
            chain = list(range(lo, hi + 1))
            if len(chain) > 2 and rng.random() < 0.5:
                inner = chain[1:-1]
                chain = [chain[0]] + sorted(rng.sample(inner, rng.randint(0, len(inner)))) + [chain[-1]]
            for x in range(len(chain) - 1):
                edges.setdefault((hidden[chain[x + 1]], hidden[chain[x]]), rng.choice(['explicit', 'resource', 'both']))
            edges[(hidden[lo], hidden[hi])] = rng.choice(['explicit', 'resource'])
    p_always = rng.choice([0.0, 0.2, 0.35, 0.6])
    p_fail = rng.choice([0.0, 0.15, 0.3, 0.5, 0.9])
    always = [rng.random() < p_always for _ in range(n)]
    fails = [rng.random() < p_fail for _ in range(n)]
    shield = False
    if not cyclic and n >= 3 and rng.random() < 0.25:
        # motif: failed job <- always-run job that succeeds <- ordinary job (the shield of the least fixpoint)
        a, b, c = sorted(rng.sample(range(n), 3))
        ja, jb, jc = hidden[a], hidden[b], hidden[c]
        edges.setdefault((jb, ja), rng.choice(EDGE_KINDS))
        edges.setdefault((jc, jb), rng.choice(EDGE_KINDS))
        fails[ja], always[ja] = True, True
        fails[jb], always[jb] = False, True
        always[jc] = False
        shield = True
    # the always-run flag is whatever the LAST always_run(...) call on the job says: half of the pipelines make several calls per job
    rich_flags = frng.random() < 0.5
    reset = set()
    if flag_motif and not cyclic and not shield and n >= 2 and frng.random() < 0.25:
        # motif: failing job <- job whose flag was switched on and off again (<- ordinary job, skipped through the skipped one)
        k = 3 if n >= 3 and frng.random() < 0.6 else 2
        picks = sorted(frng.sample(range(n), k))
        ja, jb = hidden[picks[0]], hidden[picks[1]]
        edges.setdefault((jb, ja), frng.choice(EDGE_KINDS))
        fails[ja], always[ja] = True, True
        always[jb] = False
        reset.add(jb)
        if k == 3:
            jc = hidden[picks[2]]
            edges.setdefault((jc, jb), frng.choice(EDGE_KINDS))
            always[jc] = False
    py_flags = [False] * n
    if py is not None:
        p_py = rng.choice(py['p'])
        py_flags = [rng.random() < p_py for _ in range(n)]
        proper = sorted(e for e in edges if e[0] != e[1])
        if proper and rng.random() < py.get('force', 0.0):
            # make sure the class is reached: some dependent is a python job that consumes its dependency's resource
            e = rng.choice(proper)
            py_flags[e[0]] = True
            if edges[e] == 'explicit':
                edges[e] = rng.choice(['resource', 'resource', 'both'])
            if 'py_producer' in py and rng.random() < py['py_producer']:
                py_flags[e[1]] = True  # python job -> python job (PythonResult or a file derived from it)
            if not cyclic and rng.random() < py.get('fail_producer', 0.0):
                # ... and has to be skipped because of it (a skipped python job costs no interpreter start)
                fails[e[1]] = True
                always[e[0]] = False
        for e, k in edges.items():
            if py_flags[e[1]] and k in ('group', 'group_member'):
                edges[e] = 'resource'  # a PythonJob has no resource groups: its results (and the files derived from them) are consumed
    uses_group = [any(k in ('group', 'group_member') and d == j for (_, d), k in edges.items()) for j in range(n)]
    flag_calls = [gen_flag_calls(frng, always[j], rich_flags, force_reset=j in reset and not always[j]) for j in range(n)]

    # ---- operations and their only constraints; then one random linear extension ----
    ops = []  # (name, job, arg)
    after = {}  # op index -> set of op indices that must come first

    def add(op, deps=()):
        ops.append(op)
        after[len(ops) - 1] = set(deps)
        return len(ops) - 1

    create = [add(('create', j, None)) for j in range(n)]
    produce = [add(('produce', j, None), [create[j]]) for j in range(n)]
    flag = [add(('always_run', j, None), [create[j]]) if always[j] else None for j in range(n)]
    last_cmd = {j: [produce[j]] for j in range(n)}
    py_consumed = {}
    for (j, d), kind in sorted(edges.items()):
        if kind in ('explicit', 'both'):
            add(('depends_on', j, d), [create[j], create[d]])
        if kind != 'explicit':
            if py_flags[j]:
                py_consumed.setdefault(j, []).append((d, kind))  # python consumer: grouped into .call()s below
                continue
            arg = (d, kind, rng.choice(PY_FILE_REFS)) if py_flags[d] else (d, kind)
            i = add(('consume', j, arg), [produce[j], produce[d]])
            last_cmd[j].append(i)
    for j in sorted(py_consumed):
        # a PythonResult itself is only handed to a consumer that cannot run without its producer having run (the
        # wrapper of the repository unpickles it before the function is entered)
        for call in gen_pycalls(rng, j, py_consumed[j], py_flags, raw_ok=py.get('raw') == 'always' or not always[j]):
            i = add(('pycall', j, call), [produce[j]] + [produce[d] for d, _, _ in call['parts']])
            last_cmd[j].append(i)
    for j in range(n):
        add(('exit', j, None), last_cmd[j])
    style = rng.choice(['interleaved', 'interleaved', 'create_first', 'reverse_hidden'])
    order = []
    done = set()
    remaining = set(range(len(ops)))
    rank = {j: k for k, j in enumerate(hidden)}
    while remaining:
        ready = sorted(i for i in remaining if after[i] <= done)
        if style == 'create_first':
            c = [i for i in ready if ops[i][0] == 'create']
            ready = c or ready
        if style == 'reverse_hidden':
            # dependents are created (and given their commands) before the jobs they depend on whenever possible
            top = max(rank[ops[i][1]] for i in ready)
            ready = [i for i in ready if rank[ops[i][1]] == top]
        i = rng.choice(ready)
        order.append(i)
        done.add(i)
        remaining.discard(i)
    ordered = [list(ops[i]) for i in order]
    # several always_run(...) calls on a job: its one `always_run()` (if any) is replaced by the generated sequence
    special = {j: c for j, c in enumerate(flag_calls) if c != ([None] if always[j] else [])}
    if special:
        ordered = respread_flag_calls(frng, ordered, special)
    return {
        'n': n,
        'edges': [[j, d, k] for (j, d), k in sorted(edges.items())],
        'cyclic': cyclic,
        'cycle_shape': cycle_shape,
        'always': always,
        'flag_calls': flag_calls,
        'fails': fails,
        'uses_group': uses_group,
        'py': py_flags,
        'ops': ordered,
        'style': style,
    }


# ------------------------------------------------------------------------------------------
# reference model
# ------------------------------------------------------------------------------------------


def deps_of(case):
    deps = {j: set() for j in range(case['n'])}
    for j, d, _ in case['edges']:
        deps[j].add(d)
    return deps


def topo_order(deps):
    """any topological order of the model graph, or None if cyclic (Kahn)"""
    indeg = {j: len(ds) for j, ds in deps.items()}
    children = {j: set() for j in deps}
    for j, ds in deps.items():
        for d in ds:
            children[d].add(j)
    ready = sorted(j for j, k in indeg.items() if k == 0)
    out = []
    while ready:
        j = ready.pop()
        out.append(j)
        for c in sorted(children[j]):
            indeg[c] -= 1
            if indeg[c] == 0:
                ready.append(c)
    return out if len(out) == len(deps) else None


def model_outcome(case):
    """least fixpoint of skipped / failed, evaluated in dependency order"""
    deps = deps_of(case)
    order = topo_order(deps)
    assert order is not None
    skipped, failed, why = {}, {}, {}
    for j in order:
        bad = sorted(p for p in deps[j] if failed[p] or skipped[p])
        skipped[j] = (not case['always'][j]) and bool(bad)
        failed[j] = (not skipped[j]) and case['fails'][j]
        why[j] = bad
    return skipped, failed, why


# ------------------------------------------------------------------------------------------
# execution of the real code
# ------------------------------------------------------------------------------------------


# The functions that generated python jobs call.  They live in a module of their own, written below a mkdtemp() for the
# duration of run(): the job subprocess (`python3 -c "... dill.load(func_file) ..."`, the repository's wrapper) must be
# able to import them by name, and PythonJob._compile wants their source text.
PYFUNCS_MODULE = 'vf_c17_pyfuncs'
PYFUNCS_SOURCE = '''"""functions called by the python jobs that vf/monitors/c17.py generates (temporary file)"""
import os


def produce(log, j):
    with open(log, 'a') as f:
        f.write('RUN %d\\n' % j)
    return j


def _leaves(x, out):
    if x is None or isinstance(x, float):
        return
    if isinstance(x, (str, int)):
        out.append(x)
    elif isinstance(x, dict):
        if set(x) == {'a', 'b'}:
            out.append(x)  # a ResourceGroup arrives as {member: path}
        else:
            for v in x.values():
                _leaves(v, out)
    elif isinstance(x, (list, tuple)):
        for v in x:
            _leaves(v, out)


def consume(log, j, spec, *args, **kwargs):
    """spec = [[d, ref], ...] in the order in which the consumed resources appear in args, kwargs (depth first)"""
    found = []
    _leaves(args, found)
    _leaves(kwargs, found)
    lines = []
    for k, (d, ref) in enumerate(spec):
        if ref == 'own':
            continue
        x = found[k] if k < len(found) else None
        content = ''
        try:
            if ref == 'result':
                content = str(x)
            else:
                path = x['b'] if ref == 'grp' else x
                with open(path) as f:
                    content = f.readline().rstrip('\\n')
        except Exception:
            content = ''
        lines.append('READ %d %d %s\\n' % (j, d, content))
    with open(log, 'a') as f:
        f.write(''.join(lines))
    return len(found)


def fail(code):
    os._exit(code)
'''
_PYF = {'mod': None}


def build_call_args(top, leaves):
    """the positional and keyword arguments of one PythonJob.call() from a gen_call_tree() description"""

    def build(node):
        t = node[0]
        if t == 'part':
            return leaves['part'][node[1]]
        if t == 'own':
            return leaves['own']
        if t == 'none':
            return None
        if t == 'num':
            return 1.5
        kids = [build(k) for k in node[1]]
        if t == 'list':
            return kids
        if t == 'tuple':
            return tuple(kids)
        return {f'd{i}': k for i, k in enumerate(kids)}

    def order(node, out):
        if node[0] in ('part', 'own'):
            out.append(node)
        elif node[0] in ('list', 'tuple', 'dict'):
            for k in node[1]:
                order(k, out)

    args, kwargs, dfs = [], {}, []
    for i, (is_kw, node) in enumerate(top):
        order(node, dfs)
        if is_kw:
            kwargs[f'k{i}'] = build(node)
        else:
            args.append(build(node))
    return args, kwargs, dfs


def python_result_ref(res, ref):
    return {'result': lambda: res, 'as_str': res.as_str, 'as_json': res.as_json, 'as_repr': res.as_repr}[ref]()


def apply_op(b, jobs, case, qlog, name, j, arg, results=None):
    """one DSL call of a generated pipeline (`case` supplies uses_group / fails / py per job; `results` keeps the first
    PythonResult of every python job)"""
    py = case.get('py') or ()
    is_py = bool(py) and py[j]
    if is_py and name in ('produce', 'pycall', 'exit'):
        F = _PYF['mod']
        log = shlex.split(qlog)[0]
        if name == 'produce':
            results[j] = jobs[j].call(F.produce, log, j)
        elif name == 'exit':
            if case['fails'][j]:
                jobs[j].call(F.fail, 1)
        else:
            parts = []
            for d, kind, ref in arg['parts']:
                if py[d]:
                    parts.append(python_result_ref(results[d], ref))
                else:
                    parts.append({'out': lambda s: s.out, 'grp': lambda s: s.grp, 'grp.a': lambda s: s.grp.a}[ref](jobs[d]))
            args, kwargs, dfs = build_call_args(arg['top'], {'part': parts, 'own': results[j]})
            spec = [[j, 'own'] if node[0] == 'own' else [arg['parts'][node[1]][0], arg['parts'][node[1]][2]] for node in dfs]
            jobs[j].call(F.consume, log, j, spec, *args, **kwargs)
        return
    if name == 'create':
        if is_py:
            jobs[j] = b.new_python_job(name=f'job{j}' if j % 2 else None)
        else:
            jobs[j] = b.new_job(name=f'job{j}' if j % 2 else None)
    elif name == 'always_run':
        if arg is None:
            jobs[j].always_run()
        else:
            jobs[j].always_run(arg)
    elif name == 'depends_on':
        jobs[j].depends_on(jobs[arg])
    elif name == 'consume' and len(arg) == 3:
        # bash consumer of a python producer: one of the files derived from the PythonResult
        d, kind, ref = arg
        fref = f'{python_result_ref(results[d], ref)}'
        jobs[j].command(f'X=; {{ read -r X < {fref}; }} 2>/dev/null; echo "READ {j} {d} $X" >> {qlog}')
    elif name == 'produce':
        job = jobs[j]
        cmd = f'echo "RUN {j}" >> {qlog}\necho {j} > {job.out}'
        if case['uses_group'][j]:
            job.declare_resource_group(grp={'a': '{root}.a', 'b': '{root}.b'})
            cmd += f'\necho {j} > {job.grp.a}\necho {j} > {job.grp}.b'
        job.command(cmd)
    elif name == 'consume':
        d, kind = arg
        src = jobs[d]
        if kind == 'group':
            ref = f'{src.grp}.b'
        elif kind == 'group_member':
            ref = f'{src.grp.a}'
        else:
            ref = f'{src.out}'
        # `read` is a builtin: no extra fork/exec per consumed resource
        jobs[j].command(f'X=; {{ read -r X < {ref}; }} 2>/dev/null; echo "READ {j} {d} $X" >> {qlog}')
    elif name == 'exit':
        jobs[j].command(f'exit {1 if case["fails"][j] else 0}')
    else:
        raise AssertionError(name)


def execute(hb, case):
    from hailtop.batch.exceptions import BatchException

    scratch = tempfile.mkdtemp(prefix='vf-c17-')
    log = os.path.join(scratch, 'exec.log')
    qlog = shlex.quote(log)
    backend = None
    obs = {'exception': None, 'exception_type': None, 'build_error': None}
    try:
        backend = hb.LocalBackend(tmp_dir=scratch)
        b = hb.Batch(backend=backend, name='c17')
        jobs = {}
        group_res = {}
        sink = io.StringIO()
        with warnings.catch_warnings(), contextlib.redirect_stdout(sink):
            warnings.simplefilter('ignore')
            try:
                results = {}
                for name, j, arg in case['ops']:
                    apply_op(b, jobs, case, qlog, name, j, arg, results)
            except Exception as e:  # the DSL refused to build the pipeline: not something the generator intends
                obs['build_error'] = repr(e)
                return obs
            try:
                b.run()
            except BaseException as e:  # noqa: BLE001  (SystemExit etc. are observations too)
                if isinstance(e, KeyboardInterrupt):
                    raise
                obs['exception'] = repr(e)[:300]
                obs['exception_type'] = type(e).__name__
                obs['is_batch_exception'] = isinstance(e, BatchException)
        obs['ids'] = [jobs[j]._job_id for j in range(case['n'])]
        runs, reads = [], []
        try:
            with open(log) as f:
                for line in f:
                    parts = line.rstrip('\n').split(' ')
                    if parts[0] == 'RUN':
                        runs.append(int(parts[1]))
                    elif parts[0] == 'READ':
                        reads.append((int(parts[1]), int(parts[2]), ' '.join(parts[3:])))
            obs['log_exists'] = True
        except FileNotFoundError:
            obs['log_exists'] = False
        obs['runs'] = runs
        obs['reads'] = reads
        left = os.path.join(scratch, 'batch')
        obs['scratch_left'] = sorted(os.listdir(left)) if os.path.isdir(left) else []
        return obs
    finally:
        if backend is not None:
            try:
                backend.close()
            except Exception:
                pass
        shutil.rmtree(scratch, ignore_errors=True)


# ------------------------------------------------------------------------------------------
# oracle
# ------------------------------------------------------------------------------------------


def _pyc(case, j):
    """is job j of the case / history a python job"""
    py = case.get('py')
    return bool(py) and bool(py[j])


def count_python_calls(ctx, ops, pre):
    """what the generated PythonJob.call()s looked like (pre = 'py_' executed single runs, 'plan_py_' recording backend)"""
    for name, j, arg in ops:
        if name == 'consume' and len(arg) == 3:
            ctx.count(pre + 'bash_consumer_of_python_producer')
        if name != 'pycall':
            continue
        ctx.count(pre + 'calls')
        if len(arg['parts']) >= 2:
            ctx.count(pre + 'calls_with_several_producers')
        if 'own' in repr(arg['top']):
            ctx.count(pre + 'calls_with_own_result')
        paths = call_tree_paths(arg['top'])
        for i, (d, kind, ref) in enumerate(arg['parts']):
            path = paths[i]
            ctx.count(pre + 'consumed_resources')
            ctx.count(pre + ('arg_plain' if len(path) == 1 else 'arg_in_' + path[-1]))
            if 'tuple' in path[1:-1] or 'list' in path[1:-1] or 'dict' in path[1:-1]:
                ctx.count(pre + 'arg_nested')
            if path[0] == 'kw':
                ctx.count(pre + 'arg_keyword')
            ctx.count(pre + 'ref_' + {'out': 'file', 'grp.a': 'file', 'grp': 'group', 'result': 'python_result'}.get(ref, 'converted_result_file'))
            ctx.seen('py_arg_paths', '/'.join(path))


def check(ctx, case, obs):
    n = case['n']
    deps = deps_of(case)
    w = {'case': case, 'observed': obs}
    has_py = any(case.get('py') or ())
    if has_py and not obs.get('build_error'):
        ctx.count('py_pipelines')
        count_python_calls(ctx, case['ops'], 'py_')

    if obs.get('build_error'):
        ctx.violation('build/dsl-refused-generated-pipeline', f"building the pipeline raised {obs['build_error']}", w)
        return 'build-error'

    if case['cyclic']:
        ctx.count('pipelines_cyclic')
        ctx.count('cyclic_' + case['cycle_shape'])
        if case['cycle_shape'] == 'resource_cycle' or all(k == 'resource' for _, _, k in case['edges']):
            ctx.count('cyclic_resource_only_cycle')
        if obs['runs'] or obs['reads']:
            key = 'cycle/self-loop-not-rejected' if case['cycle_shape'] == 'self' else 'cycle/jobs-ran-in-cyclic-pipeline'
            ctx.violation(key, f"cyclic pipeline ({case['cycle_shape']}) executed jobs {obs['runs']} (exception: {obs['exception_type']})", w)
        elif obs['exception'] is None:
            key = 'cycle/self-loop-not-rejected' if case['cycle_shape'] == 'self' else 'cycle/not-rejected'
            ctx.violation(key, f"cyclic pipeline ({case['cycle_shape']}) was not rejected: run() returned normally", w)
        else:
            ctx.count('cyclic_rejected_before_any_marker')
            ctx.seen('cycle_rejection_exception', obs['exception_type'])
            cyc = _on_cycle(deps, n)
            if any(j in cyc and d in cyc and k in RES_KINDS and _pyc(case, j) for j, d, k in case['edges']):
                ctx.count('py_cycle_through_call_argument_rejected')
        return ('cyclic', obs['exception_type'])

    # ---- DAG ----
    ctx.count('pipelines_dag')
    for j, d, kind in case['edges']:
        ctx.count({'explicit': 'edges_explicit_only', 'resource': 'edges_resource_only', 'both': 'edges_both'}.get(kind, 'edges_group'))
    created_at = {}
    for pos, (name, j, _) in enumerate(case['ops']):
        if name == 'create':
            created_at[j] = pos
    for j, d, _ in case['edges']:
        if created_at[d] > created_at[j]:
            ctx.count('dependency_created_after_dependent')

    if obs.get('is_batch_exception'):
        ctx.violation('cycle/dag-rejected', f"acyclic pipeline rejected: {obs['exception']}", w)
        return 'dag-rejected'
    if obs['exception'] is not None and obs['exception_type'] != 'CalledProcessError':
        ctx.violation('run/unexpected-exception', f"run() raised {obs['exception']}", w)
        return 'unexpected-exception'

    # numbering
    ids = obs['ids']
    if sorted(x for x in ids if x is not None) != list(range(1, n + 1)):
        ctx.violation('order/numbering-not-a-permutation', f'job numbers {ids} are not a permutation of 1..{n}', w)
    else:
        for j, d, kind in case['edges']:
            ctx.count('numbering_edges_checked')
            if kind in RES_KINDS and _pyc(case, j):
                ctx.count('py_consumer_edges_numbering_checked')
                if created_at[d] > created_at[j]:
                    ctx.count('py_consumer_created_before_producer')
            if not ids[d] < ids[j]:
                key = ('order/numbering-ignores-python-call-argument' if kind in RES_KINDS and _pyc(case, j) else
                       'order/numbering-ignores-resource-dependency' if kind in RES_KINDS else 'order/numbering-not-topological')
                ctx.violation(key, f'job {j} (number {ids[j]}) depends on job {d} (number {ids[d]}) via {kind}', w)

    # executed set
    skipped, failed, why = model_outcome(case)
    runs = obs['runs']
    # the always_run(...) calls the generator made per job; the model flag is what the last call said (none: not always-run)
    fcalls = flag_calls_of(case['ops'])
    fcls = {j: flag_class(fcalls.get(j, [])) for j in range(n)}
    for j in range(n):
        assert bool(fcalls.get(j) and fcalls[j][-1]) == bool(case['always'][j]), (j, fcalls.get(j), case['always'])
        for a in fcalls.get(j, []):
            ctx.count('flag_calls_on' if a else 'flag_calls_off')
        ctx.count('flag_jobs_' + fcls[j])
        ctx.seen('flag_call_sequences', ''.join('1' if a else '0' for a in fcalls.get(j, [])))
    for name, j, arg in case['ops']:
        if name == 'always_run' and arg is True:
            ctx.count('flag_calls_on_explicit_true')
    pos = {}
    for k, j in enumerate(runs):
        if j in pos:
            ctx.violation('exec/job-ran-twice', f'job {j} executed more than once: {runs}', w)
        pos.setdefault(j, k)
    for j in range(n):
        ran = j in pos
        if skipped[j]:
            ctx.count('jobs_skipped')
            if any(skipped[p] for p in deps[j]) and not any(failed[p] for p in deps[j]):
                ctx.count('skipped_via_skipped_parent')
            if _pyc(case, j) and {k for jj, d, k in case['edges'] if jj == j and d in why[j]} <= set(RES_KINDS):
                ctx.count('py_consumer_skipped_only_through_call_arguments')
            if fcls[j] == 'reset':
                ctx.count('flag_reset_job_skipped')
            if fcls[j] == 'false_only':
                ctx.count('flag_false_only_job_skipped')
            if any(skipped[p] and fcls[p] == 'reset' for p in why[j]):
                ctx.count('flag_child_of_skipped_reset_job_skipped')
        else:
            ctx.count('jobs_executed')
            if fcls[j] == 'reset' and not why[j]:
                ctx.count('flag_reset_job_ran_unaffected')
            if fcls[j] == 'reraised' and why[j]:
                ctx.count('flag_reraised_job_ran_despite_bad_parent')
            if _pyc(case, j):
                ctx.count('py_jobs_executed')
            if failed[j]:
                ctx.count('jobs_failed')
            if case['always'][j] and why[j]:
                ctx.count('always_run_ran_despite_bad_parent')
            if not case['always'][j] and any(case['always'][p] and why[p] and not failed[p] for p in deps[j]):
                ctx.count('shielded_child_ran')
        if ran and skipped[j]:
            only_skipped_parents = not any(failed[p] for p in deps[j])
            kinds = {k for jj, d, k in case['edges'] if jj == j and d in why[j]}
            # did a dependency of j really fail / really not run (then j itself was wrongly let through), or is j only the
            # consequence of a dependency that should have been skipped and was not
            own = any((p in pos and case['fails'][p]) or p not in pos for p in why[j])
            if own and fcls[j] == 'reset':
                key = 'skip/job-reset-to-not-always-run-ran'
            elif own and fcls[j] == 'false_only':
                key = 'skip/job-marked-not-always-run-ran'
            elif kinds <= set(RES_KINDS) and _pyc(case, j):
                key = 'skip/python-consumer-of-failed-or-skipped-producer-ran'
            elif only_skipped_parents:
                key = 'skip/child-of-skipped-job-ran'
            elif kinds <= {'resource', 'group', 'group_member'}:
                key = 'skip/consumer-of-failed-producer-ran'
            else:
                key = 'skip/child-of-failed-job-ran'
            ctx.violation(key, f'job {j} ran although dependencies {why[j]} failed or were skipped and it is not always_run'
                          + (f' (always_run calls on it, in order: {fcalls[j]})' if fcalls.get(j) else ''), w)
        if not ran and not skipped[j]:
            if case['always'][j]:
                key = 'skip/always-run-job-set-again-after-reset-skipped' if fcls[j] == 'reraised' else 'skip/always-run-job-skipped'
            elif any(case['always'][p] and not failed[p] and not skipped[p] for p in deps[j]):
                key = 'skip/child-of-successful-always-run-job-skipped'
            else:
                key = 'skip/unaffected-job-skipped'
            ctx.violation(key, f'job {j} did not run although none of its dependencies {sorted(deps[j])} failed or was skipped (or it is always_run)', w)

    # execution order
    for j, d, kind in case['edges']:
        if j in pos and d in pos:
            ctx.count('execution_edges_checked')
            if not pos[d] < pos[j]:
                key = ('order/python-consumer-ran-before-producer' if kind in RES_KINDS and _pyc(case, j) else
                       'order/consumer-ran-before-producer' if kind in RES_KINDS else 'order/execution-before-dependency')
                ctx.violation(key, f'job {j} ran at position {pos[j]} before its dependency {d} (position {pos[d]}); log {runs}', w)
    for j, d, content in obs['reads']:
        ctx.count('resource_reads_observed')
        if _pyc(case, j) or _pyc(case, d):
            ctx.count('py_reads_observed')
        if d in pos and j in pos and pos[d] < pos[j] and content != str(d):
            ctx.violation('order/consumer-did-not-see-producer-output', f'job {j} read {content!r} from the resource of job {d}, which had already run', w)

    # exception iff an executed job failed (decided from what really ran, so that it is independent of the skip oracle)
    really_failed = sorted(j for j in pos if case['fails'][j])
    if really_failed:
        ctx.count('runs_with_failure')
    if obs['exception'] is None:
        ctx.count('runs_clean')
        if really_failed:
            ctx.violation('raise/failure-swallowed', f'jobs {really_failed} exited 1 but run() returned normally', w)
    else:
        ctx.count('runs_raised')
        if not really_failed:
            ctx.violation('raise/exception-without-failure', f'run() raised {obs["exception"]} although no executed job failed', w)
    return ('dag', tuple(runs), obs['exception_type'])


# ------------------------------------------------------------------------------------------
# run / edit / re-run histories on ONE Batch object
#
# "For every pipeline built with the Batch DSL": the pipeline that a run() call sees may have been built in several
# sittings, with earlier run() calls (dry runs, failed runs, clean runs, rejected runs) in between.  Job numbers,
# `_submitted` flags and the order of `Batch._jobs` are persistent per-job / per-batch state, so every clause that is
# decided inside `Batch._async_run` / `LocalBackend._async_run` is exercised again on state that an earlier run left.
#
# What the oracle demands of a later run (and nothing more):
#   * ordering clause: after every accepted run() all job numbers are a permutation of 1..n and a topological order
#     of ALL edges requested so far; jobs executed in the same run respect the edges among them;
#   * cycle clause: whenever the edges requested so far contain a cycle, run() raises and executes nothing - no matter
#     what earlier runs did to the jobs on the cycle;
#   * skip clause, decided locally against the observed outcome of the direct dependencies in THIS run:
#     an always-run job that is due runs; a due non-always-run job with a dependency that failed or was skipped in this
#     run does not run; a due job none of whose dependencies failed (now or in an earlier run) or was skipped runs.
#     Left open (counted, never a verdict): a job whose only bad dependency failed in an EARLIER run (the tree runs it;
#     the property does not say), jobs that existed at an earlier LocalBackend dry run (the tree marks them submitted),
#     an edge added after its dependent had already executed, re-execution of an already executed job;
#   * run() raises iff a job executed in this run failed.
# ------------------------------------------------------------------------------------------

HIST_EDGE_KINDS = ['explicit', 'explicit', 'resource', 'resource', 'both']


def _descendants(deps, n):
    """desc[a] = jobs that (transitively) depend on a"""
    children = {j: set() for j in range(n)}
    for j, ds in deps.items():
        for d in ds:
            children[d].add(j)
    desc = {}
    for a in range(n):
        out, stack = set(), [a]
        while stack:
            x = stack.pop()
            for c in children[x]:
                if c not in out:
                    out.add(c)
                    stack.append(c)
        desc[a] = out
    return desc


def gen_history(rng, plan, py=None):
    """a first sitting (an acyclic gen_case pipeline) followed by 1..2 edit sittings, each closed by run();
    py (recording backend only): bash and python jobs mixed, see gen_case"""
    frng = side_rng(rng, 'history-flags')  # see side_rng: the always_run call sequences draw from a generator of their own
    while True:
        base = gen_case(rng, py, flag_motif=False)
        if not base['cyclic'] and base['n'] >= 2:
            break
    n = base['n']
    py_flags = list(base['py'])
    p_py = rng.choice(py['p']) if py is not None else 0.0
    edges = {(j, d): k for j, d, k in base['edges']}
    always = list(base['always'])
    fails = list(base['fails'])
    uses_group = list(base['uses_group'])
    if plan:
        fails = [False] * n  # the recording backend executes nothing
    elif edges and rng.random() < 0.6:
        # make sure something is left over for the next run: a failing job with a non-always-run dependent
        j, d = rng.choice(sorted(edges))
        fails[d] = True
        always[j] = False
    deps0 = {j: set() for j in range(n)}
    for j, d in edges:
        deps0[j].add(d)
    hidden = topo_order(deps0)  # dependencies first; kept a valid order of the acyclic part of the model
    leftover = set()
    if not plan:
        sk, _, _ = model_outcome({'n': n, 'edges': base['edges'], 'always': always, 'fails': fails})
        leftover = {j for j in range(n) if sk[j]}
    first_ops = [list(op) for op in base['ops']]
    for j in range(n):
        if base['always'][j] and not always[j]:
            # the dependent was an always-run job of the generated pipeline: either it is never marked, or (the way a script that
            # changes its mind does it) the flag is switched off again by a later always_run(False)
            if frng.random() < 0.5:
                first_ops = [op for op in first_ops if not (op[0] == 'always_run' and op[1] == j)]
            else:
                at = max(i for i, op in enumerate(first_ops) if op[0] == 'always_run' and op[1] == j)
                first_ops.insert(frng.randint(at + 1, len(first_ops)), ['always_run', j, False])
    p_dry = 0.4 if plan else 0.25
    stages = [{
        'new_jobs': list(range(n)), 'edges_added': [list(e) for e in base['edges']], 'ops': first_ops,
        'dry': rng.random() < p_dry, 'mode': 'dag', 'cycle_shape': None, 'always': list(always),
    }]
    n_stages = rng.choice([2, 2, 2, 3, 3, 4] if plan else [2, 2, 2, 3, 3])
    closed = False
    for s in range(1, n_stages):
        last = s == n_stages - 1
        old_n = n
        k_new = rng.choice([0, 0, 1, 1, 2, 3])
        mode = 'cycle' if (not closed and rng.random() < ((0.6 if last else 0.25) if plan else (0.45 if last else 0.15))) else 'dag'
        shape = None
        # (real backend) motif for the skip clause on a re-run: new failing job <- new ordinary job
        motif = (not plan) and mode == 'dag' and rng.random() < 0.4
        if motif:
            k_new = max(k_new, 2)
        if mode == 'cycle':
            shape = rng.choice(['old_back', 'old_back', 'old_back', 'old_self', 'old_two', 'via_new', 'via_new', 'new_only'])
            if shape in ('via_new', 'new_only'):
                k_new = max(k_new, 1)
        new = list(range(n, n + k_new))
        p_always = rng.choice([0.0, 0.2, 0.5])
        p_fail = 0.0 if plan else rng.choice([0.0, 0.25, 0.5, 0.7])
        for x in new:
            hidden.insert(rng.randint(0, len(hidden)), x)
            always.append(rng.random() < p_always)
            fails.append(rng.random() < p_fail)
            uses_group.append(False)
            py_flags.append(py is not None and rng.random() < p_py)
        n += k_new
        added = {}

        def kind_for(d):
            ks = HIST_EDGE_KINDS + (['group', 'group_member'] if uses_group[d] else [])
            return rng.choice(ks)

        if not closed or rng.random() < 0.5:
            # acyclic additions along the hidden order: new -> old, old -> new, new -> new, old -> old
            rank = {j: k for k, j in enumerate(hidden)}
            p_new = rng.choice([0.2, 0.35, 0.6])
            p_old = rng.choice([0.0, 0.05, 0.15])
            for j in range(n):
                for d in range(n):
                    if j == d or rank[d] > rank[j] or (j, d) in edges:
                        continue
                    p = p_new if (j >= old_n or d >= old_n) else p_old
                    if rng.random() < p:
                        added[(j, d)] = kind_for(d)
        if motif:
            rank = {j: k for k, j in enumerate(hidden)}
            a, b2 = sorted(rng.sample(new, 2), key=rank.get)
            added.setdefault((b2, a), rng.choice(HIST_EDGE_KINDS))
            fails[a], always[a], always[b2] = True, True, False
        # (real backend) the flag of jobs that an earlier run() has already seen is changed in this sitting - preferably of jobs
        # that the first run skipped: they are still to be run, so the flag they have NOW decides what this run owes them
        toggles = {}
        if not plan and frng.random() < 0.75:
            pool = sorted(j for j in leftover if j < old_n) if frng.random() < 0.8 else []
            pool = pool or list(range(old_n))
            rank = {j: k for k, j in enumerate(hidden)}
            for j in frng.sample(pool, min(len(pool), frng.choice([1, 2, 2]))):
                final = frng.random() < 0.4
                calls = gen_flag_calls(frng, final, True, force_reset=not final and frng.random() < 0.75)
                if not calls:
                    calls = [None] if final else [False]
                toggles[j] = calls
                always[j] = final
                if not final and mode == 'dag' and frng.random() < 0.75:
                    # ... and a new job that fails in this run is put in front of it (one of this sitting's, or one more)
                    earlier_new = sorted(x for x in new if rank[x] < rank[j] and (j, x) not in edges and not (motif and x == b2))
                    if earlier_new:
                        x = frng.choice(earlier_new)
                    else:
                        x = n
                        n += 1
                        new.append(x)
                        hidden.insert(hidden.index(j), x)
                        always.append(True)
                        fails.append(True)
                        uses_group.append(False)
                        py_flags.append(False)
                        rank = {jj: k for k, jj in enumerate(hidden)}
                    added.setdefault((j, x), frng.choice(HIST_EDGE_KINDS))
                    fails[x], always[x] = True, True
        if mode == 'cycle':
            deps = {j: set() for j in range(n)}
            for j, d in list(edges) + list(added):
                deps[j].add(d)
            desc = _descendants(deps, n)
            old = list(range(old_n))

            def ck():
                return rng.choice(['explicit', 'explicit', 'resource', 'both'])

            if shape == 'old_back':
                pairs = sorted((a, d) for a in old for d in desc[a] if d < old_n)
                left = [p for p in pairs if p[0] in leftover or p[1] in leftover]
                if left and rng.random() < 0.6:
                    pairs = left  # close the cycle through jobs that the first run skipped (they are still to be run)
                if pairs:
                    a, d = rng.choice(pairs)
                    added[(a, d)] = ck()  # an ancestor is made to depend on one of its (transitive) dependents
                else:
                    shape = 'old_two'
            if shape == 'old_two':
                if old_n >= 2:
                    a, b2 = rng.sample(old, 2)
                    if (a, b2) not in edges:
                        added[(a, b2)] = ck()
                    if (b2, a) not in edges:
                        added[(b2, a)] = ck()
                else:
                    shape = 'old_self'
            if shape == 'old_self':
                a = rng.choice(old)
                added[(a, a)] = 'explicit'
            if shape == 'via_new':
                x = rng.choice(new)
                a = rng.choice(old)
                d = rng.choice(sorted(desc[a] | {a}))
                added[(a, x)] = ck()  # old job depends on the new job ...
                if d != x:
                    added[(x, d)] = ck()  # ... which depends on the old job or on one of its dependents
                else:
                    added[(x, a)] = ck()
            if shape == 'new_only':
                k = rng.randint(1, len(new))
                ring = rng.sample(new, k)
                if k == 1:
                    added[(ring[0], ring[0])] = 'explicit'
                else:
                    for i in range(k):
                        added[(ring[i], ring[(i + 1) % k])] = ck()
            closed = True
        for e, k in added.items():
            if e[0] == e[1]:
                added[e] = 'explicit'  # a job cannot consume its own resource as an input
        edges.update(added)

        # the sitting's DSL calls, in one random linear extension of what the DSL requires
        ops, after = [], {}

        def add(op, before=()):
            ops.append(op)
            after[len(ops) - 1] = {i for i in before if i is not None}
            return len(ops) - 1

        create = {x: add(('create', x, None)) for x in new}
        produce = {x: add(('produce', x, None), [create[x]]) for x in new}
        for x in new:
            if always[x]:
                add(('always_run', x, None), [create[x]])
        last_cmd = {x: [produce[x]] for x in new}
        py_consumed = {}
        for (j, d), kind in sorted(added.items()):
            if kind in ('explicit', 'both'):
                add(('depends_on', j, d), [create.get(j), create.get(d)])
            if kind != 'explicit':
                if py_flags[j]:
                    py_consumed.setdefault(j, []).append((d, kind))
                    continue
                arg = (d, kind, rng.choice(PY_FILE_REFS)) if py_flags[d] else (d, kind)
                i = add(('consume', j, arg), [produce.get(j), produce.get(d)])
                if j in last_cmd:
                    last_cmd[j].append(i)
        for j in sorted(py_consumed):
            for call in gen_pycalls(rng, j, py_consumed[j], py_flags, raw_ok=True):  # recording backend: nothing is unpickled
                i = add(('pycall', j, call), [produce.get(j)] + [produce.get(d) for d, _, _ in call['parts']])
                if j in last_cmd:
                    last_cmd[j].append(i)
        for x in new:
            add(('exit', x, None), last_cmd[x])
        order, done, remaining = [], set(), set(range(len(ops)))
        while remaining:
            ready = sorted(i for i in remaining if after[i] <= done)
            i = rng.choice(ready)
            order.append(i)
            done.add(i)
            remaining.discard(i)
        ordered = [list(ops[i]) for i in order]
        # several always_run(...) calls on this sitting's jobs (half of the sittings) and the calls on the earlier jobs
        rich_flags = frng.random() < 0.5
        special = {x: c for x in new for c in [gen_flag_calls(frng, always[x], rich_flags)] if c != ([None] if always[x] else [])}
        special.update(toggles)
        if special:
            ordered = respread_flag_calls(frng, ordered, special)
        stages.append({
            'new_jobs': new, 'edges_added': [[j, d, k] for (j, d), k in sorted(added.items())],
            'ops': ordered, 'dry': rng.random() < p_dry, 'mode': mode, 'cycle_shape': shape,
            'always': list(always), 'flags_changed': sorted(toggles),
        })
    return {'backend': 'plan' if plan else 'local', 'n': n, 'always': always, 'fails': fails, 'uses_group': uses_group,
            'py': py_flags, 'stages': stages}


def make_plan_backend():
    """A backend that executes nothing and has ServiceBackend's submission bookkeeping (backend.py: `unsubmitted_jobs =
    batch._unsubmitted_jobs`, nothing is marked on a dry run, `job._submitted = True` for what was handed over): it
    records the jobs in the order `Batch._async_run` hands them over.  Only the Batch-side clauses are decided with it."""
    from hailtop.batch.backend import Backend

    class PlanBackend(Backend):
        def __init__(self):  # pylint: disable=super-init-not-called
            self._closed = True
            self.handed = []

        @property
        def _fs(self):
            raise NotImplementedError

        async def _async_close(self):
            pass

        def close(self):
            pass

        def __del__(self):
            pass

        async def _async_run(self, batch, dry_run, verbose, delete_scratch_on_exit, **backend_kwargs):
            todo = list(batch._unsubmitted_jobs)
            if dry_run:
                return None
            for j in todo:
                self.handed.append(j)
                j._submitted = True
            return None

    return PlanBackend()


def execute_history(hb, hist):
    from hailtop.batch.exceptions import BatchException

    plan = hist['backend'] == 'plan'
    scratch = tempfile.mkdtemp(prefix='vf-c17h-')
    log = os.path.join(scratch, 'exec.log')
    qlog = shlex.quote(log)
    backend = None
    obs = {'stages': []}
    try:
        backend = make_plan_backend() if plan else hb.LocalBackend(tmp_dir=scratch)
        b = hb.Batch(backend=backend, name='c17h')
        jobs = {}
        results = {}
        consumed = 0
        sink = io.StringIO()
        with warnings.catch_warnings(), contextlib.redirect_stdout(sink):
            warnings.simplefilter('ignore')
            for stage in hist['stages']:
                so = {'exception': None, 'exception_type': None, 'build_error': None, 'is_batch_exception': False}
                obs['stages'].append(so)
                try:
                    for name, j, arg in stage['ops']:
                        apply_op(b, jobs, hist, qlog, name, j, arg, results)
                except Exception as e:
                    so['build_error'] = repr(e)
                    break
                try:
                    b.run(dry_run=stage['dry'])
                except BaseException as e:  # noqa: BLE001
                    if isinstance(e, KeyboardInterrupt):
                        raise
                    so['exception'] = repr(e)[:300]
                    so['exception_type'] = type(e).__name__
                    so['is_batch_exception'] = isinstance(e, BatchException)
                so['ids'] = [jobs[j]._job_id for j in sorted(jobs)]
                runs, reads = [], []
                if plan:
                    index = {id(job): j for j, job in jobs.items()}
                    runs = [index[id(job)] for job in backend.handed[consumed:]]
                    consumed = len(backend.handed)
                else:
                    try:
                        with open(log) as f:
                            lines = f.readlines()
                    except FileNotFoundError:
                        lines = []
                    for line in lines[consumed:]:
                        parts = line.rstrip('\n').split(' ')
                        if parts[0] == 'RUN':
                            runs.append(int(parts[1]))
                        elif parts[0] == 'READ':
                            reads.append((int(parts[1]), int(parts[2]), ' '.join(parts[3:])))
                    consumed = len(lines)
                so['runs'] = runs
                so['reads'] = reads
                sink.seek(0)
                sink.truncate()
        return obs
    finally:
        if backend is not None:
            try:
                backend.close()
            except Exception:
                pass
        shutil.rmtree(scratch, ignore_errors=True)


def _on_cycle(deps, n):
    """jobs that lie on some dependency cycle"""
    desc = _descendants(deps, n)
    return {j for j in range(n) if j in desc[j]}


def check_history(ctx, hist, obs):
    plan = hist['backend'] == 'plan'
    bk = hist['backend']
    always, fails = hist['always'], hist['fails']  # `always` is replaced per sitting below: the flags as they are when that run() is called
    fcalls = {}  # always_run(...) calls made on every job so far, over all sittings
    flag_changed_later = set()  # jobs whose flag was set again in a sitting after an earlier run() had seen them
    w = {'history': hist, 'observed': obs}
    ctx.count('histories_' + bk)
    if any(hist.get('py') or ()):
        ctx.count('plan_py_histories')
        for st, so in zip(hist['stages'], obs['stages']):
            if not so.get('build_error'):
                count_python_calls(ctx, st['ops'], 'plan_py_')
    n = 0
    edges = {}
    done = set()  # executed in an earlier (real) run
    limbo = set()  # existed at an earlier LocalBackend dry run and not executed since: whether they are due is left open
    skipped_before = set()
    numbered = set()  # jobs that an earlier run() call has seen
    earlier = []  # what the earlier runs were: 'dry' / 'failed' / 'clean' / 'rejected'
    outcome = []
    for s, stage in enumerate(hist['stages']):
        if s >= len(obs['stages']):
            break
        so = obs['stages'][s]
        n += len(stage['new_jobs'])
        for j, d, k in stage['edges_added']:
            edges[(j, d)] = k
        always = stage.get('always', hist['always'])
        flag_calls_of(stage['ops'], fcalls)
        flag_changed_later |= {j for name, j, _ in stage['ops'] if name == 'always_run' and j not in stage['new_jobs']}
        fcls = {j: flag_class(fcalls.get(j, [])) for j in range(n)}
        for j in range(n):
            assert bool(fcalls.get(j) and fcalls[j][-1]) == bool(always[j]), (s, j, fcalls.get(j), always)
        if so.get('build_error'):
            ctx.violation('build/dsl-refused-generated-pipeline', f"sitting {s}: building the pipeline raised {so['build_error']}", w)
            return tuple(outcome) + ('build-error',)
        deps = {j: set() for j in range(n)}
        for j, d in edges:
            deps[j].add(d)
        cyclic = topo_order(deps) is None
        rerun = s > 0
        tag = 'rerun-' if rerun else ''
        ctx.count('history_runs')
        if rerun:
            ctx.count('rerun_runs')
            ctx.count('rerun_runs_' + bk)
            ctx.seen('rerun_after', '+'.join(earlier))
        w['sitting'] = s

        if cyclic:
            ctx.count('history_runs_cyclic')
            cyc = _on_cycle(deps, n)
            if rerun:
                ctx.count('rerun_cyclic')
                ctx.count('rerun_cyclic_' + bk)
                ctx.seen('rerun_cycle_shapes', f"{stage['cycle_shape']}/{stage['mode']}")
                if cyc & numbered:
                    ctx.count('rerun_cycle_through_numbered_jobs')
                    ctx.count('rerun_cycle_through_numbered_jobs_' + bk)
                    if cyc <= numbered:
                        ctx.count('rerun_cycle_of_numbered_jobs_only')
                else:
                    ctx.count('rerun_cycle_of_new_jobs_only')
                if cyc & done:
                    ctx.count('rerun_cycle_through_executed_jobs')
                if cyc & skipped_before:
                    ctx.count('rerun_cycle_through_skipped_jobs')
                for e in set(earlier):
                    ctx.count('rerun_cycle_after_' + e)
                if any(k in ('resource', 'both') for (j, d), k in edges.items() if j in cyc and d in cyc
                       and [j, d, k] in stage['edges_added']):
                    ctx.count('rerun_cycle_closed_by_resource_edge')
            again = 'rejected' in earlier
            if so['runs'] or so['reads']:
                key = ('cycle/rejected-pipeline-ran-on-rerun' if again else
                       'cycle/closed-after-earlier-run-jobs-ran' if rerun else 'cycle/jobs-ran-in-cyclic-pipeline')
                ctx.violation(key, f"sitting {s} ({'dry ' if stage['dry'] else ''}run after {earlier}): the pipeline is cyclic (jobs on a cycle: {sorted(cyc)}) "
                              f"but jobs {so['runs']} were executed (exception: {so['exception_type']})", w)
            elif so['exception'] is None:
                key = ('cycle/rejected-pipeline-accepted-on-rerun' if again else
                       'cycle/closed-after-earlier-run-not-rejected' if rerun else 'cycle/not-rejected')
                ctx.violation(key, f"sitting {s} ({'dry ' if stage['dry'] else ''}run after {earlier}): the pipeline is cyclic (jobs on a cycle: {sorted(cyc)}) "
                              'but run() returned normally', w)
            else:
                ctx.count('history_cyclic_rejected_before_any_marker')
                if rerun:
                    ctx.count('rerun_cyclic_rejected_before_any_marker')
                if any(j in cyc and d in cyc and k in RES_KINDS and _pyc(hist, j) for (j, d), k in edges.items()):
                    ctx.count('plan_py_cycle_through_call_argument_rejected')
                ctx.seen('cycle_rejection_exception', so['exception_type'])
            numbered |= set(range(n))
            earlier.append('rejected')
            outcome.append(('cyclic', so['exception_type']))
            continue

        # ---- acyclic so far ----
        if rerun:
            ctx.count('rerun_dag')
            ctx.count('rerun_dag_' + bk)
        if stage['dry']:
            ctx.count('history_dry_runs')
        if so.get('is_batch_exception'):
            ctx.violation(f'cycle/{tag}dag-rejected', f"sitting {s}: acyclic pipeline rejected: {so['exception']}", w)
            return tuple(outcome) + ('dag-rejected',)
        if so['exception'] is not None and so['exception_type'] != 'CalledProcessError':
            ctx.violation('run/unexpected-exception', f"sitting {s}: run() raised {so['exception']}", w)
            return tuple(outcome) + ('unexpected-exception',)

        # numbering of ALL jobs against ALL edges requested so far
        ids = so['ids']
        if sorted(x for x in ids if x is not None) != list(range(1, n + 1)):
            ctx.violation(f'order/{tag}numbering-not-a-permutation', f'sitting {s}: job numbers {ids} are not a permutation of 1..{n}', w)
        else:
            for (j, d), kind in sorted(edges.items()):
                if rerun:
                    ctx.count('rerun_numbering_edges_checked')
                    if d >= min(stage['new_jobs'], default=n) > j:
                        ctx.count('rerun_numbered_job_depends_on_new_job')
                else:
                    ctx.count('history_first_numbering_edges_checked')
                if kind in RES_KINDS and _pyc(hist, j):
                    ctx.count('plan_py_consumer_edges_numbering_checked')
                    if rerun and [j, d, kind] in stage['edges_added'] and j < min(stage['new_jobs'], default=n):
                        ctx.count('plan_py_call_added_to_numbered_job')
                if not ids[d] < ids[j]:
                    key = (f'order/{tag}numbering-ignores-python-call-argument' if kind in RES_KINDS and _pyc(hist, j) else
                           f'order/{tag}numbering-ignores-resource-dependency' if kind in ('resource', 'group', 'group_member')
                           else f'order/{tag}numbering-not-topological')
                    ctx.violation(key, f'sitting {s}: job {j} (number {ids[j]}) depends on job {d} (number {ids[d]}) via {kind}', w)

        # executed set of this run
        runs = so['runs']
        pos = {}
        for k, j in enumerate(runs):
            if j in pos:
                ctx.violation('exec/job-ran-twice', f'sitting {s}: job {j} executed more than once in one run: {runs}', w)
            pos.setdefault(j, k)
        if stage['dry']:
            if runs:
                ctx.count('dry_run_executed_jobs')  # not a clause of C17; counted only
        else:
            for j in range(n):
                ran = j in pos
                if j in done:
                    if ran:
                        ctx.count('rerun_executed_job_ran_again')  # left open
                    continue
                now_failed = sorted(p for p in deps[j] if p in pos and fails[p])
                now_skipped = sorted(p for p in deps[j] if p not in done and p not in limbo and p not in pos)
                open_parents = sorted(p for p in deps[j] if p not in pos and ((p in done and fails[p]) or p in limbo))
                if j in limbo:
                    ctx.count('rerun_jobs_after_dry_run_' + ('ran' if ran else 'not_run'))
                    if ran and not always[j] and now_failed:
                        ctx.violation(f'skip/{tag}child-of-failed-job-ran', f'sitting {s}: job {j} ran although its dependencies {now_failed} failed in this run', w)
                    continue
                # j is due
                if rerun:
                    ctx.count('rerun_jobs_executed' if ran else 'rerun_jobs_skipped')
                    if ran and j in skipped_before:
                        ctx.count('rerun_previously_skipped_job_executed')
                    if ran and j in stage['new_jobs']:
                        ctx.count('rerun_new_job_executed')
                pre = 'rerun_' if rerun else 'history_first_'
                if j in flag_changed_later:
                    ctx.count('rerun_flag_changed_after_earlier_run_job_due')
                if always[j]:
                    if fcls[j] == 'reraised' and (now_failed or now_skipped):
                        ctx.count(pre + 'flag_reraised_job_due_with_bad_parent')
                    if j in flag_changed_later and j in skipped_before:
                        ctx.count('rerun_flag_switched_on_for_skipped_job')
                    if not ran:
                        key = ('always-run-job-set-again-after-reset-skipped' if fcls[j] == 'reraised' else
                               'job-made-always-run-after-earlier-run-skipped' if j in flag_changed_later else 'always-run-job-skipped')
                        ctx.violation(f'skip/{tag}{key}', f'sitting {s}: always-run job {j} did not run (always_run calls on it so far: {fcalls.get(j)})', w)
                elif now_failed or now_skipped:
                    if fcls[j] in ('reset', 'false_only'):
                        ctx.count(pre + 'flag_' + fcls[j] + '_job_due_with_bad_parent')
                        if j in flag_changed_later:
                            ctx.count('rerun_flag_switched_off_after_earlier_run_job_due_with_bad_parent')
                    if ran:
                        kinds = {edges[(j, p)] for p in now_failed + now_skipped}
                        key = (f'skip/{tag}job-reset-to-not-always-run-ran' if fcls[j] == 'reset' else
                               f'skip/{tag}job-marked-not-always-run-ran' if fcls[j] == 'false_only' else
                               f'skip/{tag}child-of-skipped-job-ran' if not now_failed else
                               f'skip/{tag}consumer-of-failed-producer-ran' if kinds <= {'resource', 'group', 'group_member'} else
                               f'skip/{tag}child-of-failed-job-ran')
                        ctx.violation(key, f'sitting {s}: job {j} ran although dependencies {now_failed} failed and {now_skipped} were skipped in this run and it is not always_run'
                                      + (f' (always_run calls on it so far: {fcalls[j]})' if fcalls.get(j) else ''), w)
                elif open_parents:
                    # the only bad dependencies failed in an earlier run / sat through a dry run: the property is silent
                    ctx.count('rerun_open_child_of_earlier_failure_' + ('ran' if ran else 'not_run'))
                elif not ran:
                    ctx.violation(f'skip/{tag}unaffected-job-skipped', f'sitting {s}: job {j} did not run although none of its dependencies {sorted(deps[j])} failed or was skipped', w)
                if not ran:
                    skipped_before.add(j)

        # execution order inside this run
        for (j, d), kind in sorted(edges.items()):
            if j in pos and d in pos:
                ctx.count('rerun_execution_edges_checked' if rerun else 'history_first_execution_edges_checked')
                if not pos[d] < pos[j]:
                    key = (f'order/{tag}python-consumer-ran-before-producer' if kind in RES_KINDS and _pyc(hist, j) else
                           f'order/{tag}consumer-ran-before-producer' if kind in ('resource', 'group', 'group_member')
                           else f'order/{tag}execution-before-dependency')
                    ctx.violation(key, f'sitting {s}: job {j} ran at position {pos[j]} before its dependency {d} (position {pos[d]}); log {runs}', w)
            elif d in pos and j in done:
                ctx.count('rerun_edge_added_after_dependent_ran')  # left open
        for j, d, content in so['reads']:
            if d in pos and j in pos and pos[d] < pos[j]:
                ctx.count('history_resource_reads_observed')
                if content != str(d):
                    ctx.violation('order/consumer-did-not-see-producer-output', f'sitting {s}: job {j} read {content!r} from the resource of job {d}, which had already run', w)

        # run() raises iff a job executed in this run failed
        really_failed = sorted(j for j in pos if fails[j])
        if so['exception'] is None:
            if really_failed:
                ctx.violation('raise/failure-swallowed', f'sitting {s}: jobs {really_failed} exited 1 but run() returned normally', w)
        elif not really_failed:
            ctx.violation('raise/exception-without-failure', f'sitting {s}: run() raised {so["exception"]} although no executed job failed', w)

        done |= set(pos)
        limbo -= set(pos)
        if stage['dry'] and not plan:
            limbo |= set(range(n)) - done
        numbered |= set(range(n))
        earlier.append('dry' if stage['dry'] else 'failed' if really_failed else 'clean')
        outcome.append(('dry' if stage['dry'] else 'dag', tuple(runs), so['exception_type']))
    w.pop('sitting', None)
    return tuple(outcome)


PY_EXEC = {'p': [0.0, 0.15, 0.3], 'n_max': 5, 'force': 0.85, 'py_producer': 0.3, 'fail_producer': 0.5, 'raw': 'non_always_run_consumers'}
PY_PLAN = {'p': [0.0, 0.25, 0.5, 0.8], 'n_max': 8, 'force': 0.3, 'raw': 'always'}


def setup_python_jobs(ctx):
    """make `python3 -c "import dill ..."` (the wrapper PythonJob._compile emits; LocalBackend runs it through bash when the
    job has no image) work in the job subprocesses: this interpreter first on PATH, the `dill` this process uses and the
    module of the called functions on PYTHONPATH.  Returns (tempdir, saved environment, self-test error or None)."""
    import importlib
    import subprocess
    import sys

    import dill

    d = tempfile.mkdtemp(prefix='vf-c17py-')
    with open(os.path.join(d, PYFUNCS_MODULE + '.py'), 'w') as f:
        f.write(PYFUNCS_SOURCE)
    sys.path.insert(0, d)
    importlib.invalidate_caches()
    _PYF['mod'] = importlib.import_module(PYFUNCS_MODULE)
    saved = {k: os.environ.get(k) for k in ('PATH', 'PYTHONPATH')}
    dill_home = os.path.dirname(os.path.dirname(os.path.abspath(dill.__file__)))
    os.environ['PYTHONPATH'] = os.pathsep.join([d, dill_home] + ([saved['PYTHONPATH']] if saved['PYTHONPATH'] else []))
    os.environ['PATH'] = os.path.dirname(os.path.abspath(sys.executable)) + os.pathsep + (saved['PATH'] or '')
    probe = (f'import sys, dill, {PYFUNCS_MODULE} as m; '
             f'assert sys.version_info[:2] == {tuple(sys.version_info[:2])!r}; assert dill.loads(dill.dumps(m.produce)) is m.produce')
    try:
        r = subprocess.run(['/bin/bash', '-c', 'python3 -c ' + shlex.quote(probe)], capture_output=True, timeout=120)
        err = None if r.returncode == 0 else r.stderr.decode(errors='replace')[-300:]
    except Exception as e:  # noqa: BLE001
        err = repr(e)
    return d, saved, err


def teardown_python_jobs(d, saved):
    import sys

    for k, v in saved.items():
        if v is None:
            os.environ.pop(k, None)
        else:
            os.environ[k] = v
    if d in sys.path:
        sys.path.remove(d)
    sys.modules.pop(PYFUNCS_MODULE, None)
    _PYF['mod'] = None
    shutil.rmtree(d, ignore_errors=True)


def run(ctx):
    pydir, saved_env, py_err = setup_python_jobs(ctx)
    try:
        _run(ctx, py_err)
    finally:
        teardown_python_jobs(pydir, saved_env)


def _run(ctx, py_err):
    import hailtop.batch as hb

    import gc

    # Backend.__del__ runs the event loop; a cyclic-GC pass in the middle of a run would make it complain
    # ("event loop is already running"), so collect between cases only
    gc.disable()
    N = ctx.pick(150, 800)  # ~0.05 s per pipeline on an idle core (fork/exec bound: several times slower on a loaded machine)
    ctx.set_time_budget(ctx.pick(480, 1500))  # machine-load safety net below the watchdog; the floors decide whether enough was seen

    # pipelines of bash AND python jobs, really executed by the LocalBackend (a python job costs one interpreter start per
    # .call(): few and small pipelines; the recording-backend histories below carry the bulk of the python-job numbering cases)
    if py_err is not None:
        ctx.inconclusive_because(f'python jobs cannot be executed here (python3 + dill + function module self-test failed): {py_err}')
    for i, rng in ctx.cases(0 if py_err is not None else ctx.pick(40, 150), phase='python'):
        case = gen_case(rng, PY_EXEC)
        obs = execute(hb, case)
        gc.collect()
        outcome = check(ctx, case, obs)
        ctx.seen('outcome_kinds', outcome[0] if isinstance(outcome, tuple) else outcome)
        key = ('py', tuple(map(tuple, case['edges'])), tuple(case['always']), tuple(case['fails']), tuple(case['py']),
               tuple(j for name, j, _ in case['ops'] if name == 'create'),
               tuple(repr(arg) for name, _, arg in case['ops'] if name == 'pycall'), repr(case['flag_calls']))
        ctx.case(sample={'case': {k: v for k, v in case.items() if k != 'ops'},
                         'python_calls': [[j, arg] for name, j, arg in case['ops'] if name == 'pycall'], 'observed': obs},
                 key=key, nontrivial=case['n'] >= 2 and len(case['edges']) >= 1 and any(case['py']))

    for i, rng in ctx.cases(N):
        case = gen_case(rng)
        obs = execute(hb, case)
        gc.collect()
        outcome = check(ctx, case, obs)
        ctx.seen('outcome_kinds', outcome[0] if isinstance(outcome, tuple) else outcome)
        key = (tuple(map(tuple, case['edges'])), tuple(case['always']), tuple(case['fails']),
               tuple(j for name, j, _ in case['ops'] if name == 'create'), repr(case['flag_calls']))
        ctx.case(sample={'case': {k: v for k, v in case.items() if k != 'ops'}, 'observed': obs}, key=key,
                 nontrivial=case['n'] >= 2 and len(case['edges']) >= 1)

    # run / edit / re-run histories on one Batch object: real LocalBackend (bash subprocesses) and the recording backend
    for phase, plan, M in (('history', False, ctx.pick(60, 300)), ('history_plan', True, ctx.pick(300, 1600))):
        for i, rng in ctx.cases(M, phase=phase):
            hist = gen_history(rng, plan, PY_PLAN if plan else None)
            obs = execute_history(hb, hist)
            gc.collect()
            outcome = check_history(ctx, hist, obs)
            ctx.seen('history_outcome_kinds', '>'.join(o[0] if isinstance(o, tuple) else str(o) for o in outcome))
            key = (hist['backend'], tuple(hist['always']), tuple(hist['fails']), tuple(hist['py']),
                   tuple((st['dry'], len(st['new_jobs']), tuple(map(tuple, st['edges_added'])),
                          tuple(j for name, j, _ in st['ops'] if name == 'create'),
                          tuple(repr(arg) for name, _, arg in st['ops'] if name == 'pycall'),
                          tuple((j, arg) for name, j, arg in st['ops'] if name == 'always_run')) for st in hist['stages']))
            ctx.case(sample={'history': {k: ([{a: b for a, b in st.items() if a != 'ops'} for st in v] if k == 'stages' else v)
                                         for k, v in hist.items()}, 'observed': obs},
                     key=key, nontrivial=len(hist['stages']) >= 2)


# ------------------------------------------------------------------------------------------
# Validation record (scratch worktree, VERIF_REPO=/tmp/scratch-dsl, quick tier, seed 0; every break applied
# alone on an otherwise unchanged tree; all runs exit 1).  "DESIGN" = break listed in DESIGN.md §C17.
#
#  B1 DESIGN  batch.py  `if job_index[d] >= i` -> `>`                      CAUGHT cycle/self-loop-not-rejected
#             (only self-loops `j.depends_on(j)` slip through: every longer cycle still has an edge with a strictly larger index)
#  B2 DESIGN  backend.py cancel_child_jobs ignores `child._always_run`      CAUGHT skip/always-run-job-skipped,
#             skip/child-of-successful-always-run-job-skipped, skip/unaffected-job-skipped
#  B3 own     job.py    `_interpolate_command` no longer does `self._dependencies.add(source)` (resource-induced edges lost;
#             needs a resource-only edge plus a failing producer or a consumer created before its producer)
#                                                                          CAUGHT order/numbering-ignores-resource-dependency,
#             order/consumer-ran-before-producer, skip/consumer-of-failed-producer-ran, cycle/jobs-ran-in-cyclic-pipeline
#  B4 own     backend.py a cancelled job no longer cancels its children (no transitivity; needs a chain of length 3)
#                                                                          CAUGHT skip/child-of-skipped-job-ran
#  B5 own     batch.py  `self._jobs = ordered_jobs` dropped (backend runs jobs in creation order; needs a job created
#             before its dependency)                                       CAUGHT order/execution-before-dependency,
#             order/consumer-ran-before-producer, skip/child-of-failed-job-ran
#  B6 own     job.py    a reference to a whole ResourceGroup adds no dependency (only `{job.grp}`-style edges)
#                                                                          CAUGHT order/numbering-ignores-resource-dependency,
#             order/consumer-ran-before-producer, skip/consumer-of-failed-producer-ran
#  B7 own     backend.py only the first failing job cancels its children (needs two independent failures)
#                                                                          CAUGHT skip/child-of-failed-job-ran
#  B8 own     backend.py first_exc reset when a later job succeeds (failure swallowed)
#                                                                          CAUGHT raise/failure-swallowed
#
# Unchanged tree: silent (exit 0) for VERIF_SEED 0..4 in both tiers.  No genuine defect of C17 found.
# Note: LocalBackend raises the first failing job's subprocess.CalledProcessError after all runnable jobs ran; the oracle
# only demands "raises iff some executed job failed" and accepts any exception as the rejection of a cyclic pipeline
# (the tree raises BatchException('cycle detected in dependency graph')).
#
# Histories (added after seeded change C17-agent4, which no single run() on a fresh Batch can show):
#  S2 seed    batch.py  cycle test folded into the DFS as "seen but `_job_id is None`" (stale numbers of an earlier run()
#             hide a cycle closed through already numbered jobs)            CAUGHT cycle/closed-after-earlier-run-not-rejected,
#             cycle/closed-after-earlier-run-jobs-ran, cycle/rejected-pipeline-accepted-on-rerun, cycle/rejected-pipeline-ran-on-rerun
#  B9 own     batch.py  `if j._job_id is None: j._job_id = i` (numbers of an earlier run are kept)
#                                                                          CAUGHT order/rerun-numbering-not-a-permutation,
#             order/rerun-numbering-not-topological, order/rerun-numbering-ignores-resource-dependency
#  B10 own    batch.py  the cycle test skips jobs that are already submitted (`if j._submitted: continue`)
#                                                                          CAUGHT the four cycle/...-rerun keys of S2
#  S1 seed    C17-agent2 (only the first failing job cancels its children) still CAUGHT, now also skip/rerun-child-of-failed-job-ran
# Unchanged tree with the history phases: silent for VERIF_SEED 0..4 quick and 0..2 thorough.
#
# Python jobs (added after seeded change C17-agent6, invisible to pipelines of bash jobs only; scratch worktree, quick, seed 0,
# phases python (40 executed pipelines) and history_plan (300 recording-backend histories)):
#  S3 seed    job.py    PythonJob.call no longer descends into tuples     CAUGHT order/numbering-ignores-python-call-argument,
#             order/python-consumer-ran-before-producer, skip/python-consumer-of-failed-or-skipped-producer-ran (+ rerun- variants,
#             cycle/jobs-ran-in-cyclic-pipeline, cycle/closed-after-earlier-run-not-rejected, ... when the lost edge closes the cycle)
#  P2 own     job.py    dict values are not scanned (drops keyword arguments as well)          CAUGHT same keys
#  P3 own     job.py    `handle_args(kwargs)` dropped (keyword arguments not scanned)          CAUGHT same keys
#  P4 own     job.py    a PythonResult argument adds no dependency (files still do)            CAUGHT same keys
#  P5 own     job.py    only the first foreign resource of a call registers its source         CAUGHT order/[rerun-]numbering-ignores-python-call-argument,
#             order/[rerun-]python-consumer-ran-before-producer, cycle/closed-after-earlier-run-jobs-ran (recording-backend phase)
#  P6 own     job.py    the job's own earlier result is treated like a foreign resource (self-dependency)
#                                                                          CAUGHT cycle/dag-rejected, cycle/rerun-dag-rejected
#  P7 own     job.py    a ResourceGroup argument adds no dependency                            CAUGHT order/numbering-ignores-python-call-argument,
#             skip/python-consumer-of-failed-or-skipped-producer-ran, order/python-consumer-ran-before-producer
#  P8 own     job.py    containers are scanned one level deep only (no recursion)              CAUGHT same keys as S3
#  S1, S2 (C17-agent2, C17-agent4) still CAUGHT.  Unchanged tree: silent for VERIF_SEED 0..4 quick and 0..2 thorough.
# Observed while building this (NOT a C17 verdict, not generated): after a LocalBackend run() in which a PythonJob was skipped (its
# producer failed), a second run() of the same Batch raises KeyError(<function id>) from PythonJob._compile - `_python_function_defs`
# / `_python_function_files` are cleared at the end of every run (backend.py, both backends), `_function_calls` keeps the ids.
#
# Observed on the unchanged tree and deliberately NOT a verdict (the property is silent about it; counters
# rerun_open_child_of_earlier_failure_ran, rerun_jobs_after_dry_run_not_run): a later run() of a LocalBackend batch executes
# the jobs whose dependency failed in an EARLIER run (the failed job is `_submitted`, so nothing cancels them, and the
# earlier run's scratch directory with the producer's files is gone); LocalBackend marks every job `_submitted` on a
# dry run, so `run(dry_run=True)` followed by `run()` executes nothing.
#
# Always-run flag as the outcome of a call sequence (added after seeded change C17-agent8, invisible as long as the only call ever made
# is one `always_run()` on the always-run jobs; scratch worktree, quick, seed 0).  The call sequences, their positions, the motif
# "failing job <- job switched on and off again <- ordinary job" and the later-sitting flag changes of the LocalBackend histories draw
# from a generator of their own (side_rng), so every other choice of a generated case is what it was before.
#  S4 seed    job.py    Job.always_run(False) no longer clears the flag (assignment inside `if always_run:`)
#                                                                          CAUGHT skip/job-reset-to-not-always-run-ran,
#             skip/rerun-job-reset-to-not-always-run-ran, skip/child-of-skipped-job-ran
#  F1 own     job.py    every always_run() / always_run(True) toggles the flag (`not self._always_run if always_run else False`; needs
#             two switching-on calls in a row)                             CAUGHT skip/always-run-job-skipped,
#             skip/always-run-job-set-again-after-reset-skipped, skip/child-of-successful-always-run-job-skipped,
#             skip/rerun-job-made-always-run-after-earlier-run-skipped
#  F2 own     job.py    the first always_run(...) call on a job wins, later calls are ignored
#                                                                          CAUGHT skip/always-run-job-set-again-after-reset-skipped,
#             skip/always-run-job-skipped, skip/child-of-successful-always-run-job-skipped, skip/rerun-always-run-job-set-again-after-reset-skipped
#  S1, S2, S3 (C17-agent2, -agent4, -agent6) still CAUGHT.  Unchanged tree: silent for VERIF_SEED 0..4 quick and 0..2 thorough.
