"""Shared helpers for the pure-function batch monitors C11 C12 C13 C15.

* ``setup_cloud(cloud)``: fix CLOUD (+ the env the batch modules read at import) and pre-seed
  gear.cloud_config *before* any batch module is imported.  Must be the first thing a shard does.
* ``import_tolerant(name)``: import a repo module; third-party packages that are missing from the
  sandbox and not yet shimmed are added to the inert-stub list *in this process only* (nothing on
  disk changes; a real / functional shim that appears later always wins).  Returns the module and the
  list of names stubbed this way so that monitors can publish them in the evidence.
* fake product versions / resource rates (every product name resolves to version '1'),
* pool-configuration generators over the repository's own valid-cores tables.
"""
import importlib
import importlib.util
import os
import sys

_REPO_TOPLEVEL = {'batch', 'gear', 'hailtop', 'hail', 'web_common', 'auth', 'ci', 'vf'}
locally_stubbed = []


def _stub_if_missing(top):
    from vf import shims

    if top in _REPO_TOPLEVEL or top in shims.INERT:
        return False
    try:
        if importlib.util.find_spec(top) is not None:
            return False
    except (ImportError, ValueError):
        pass
    shims.INERT.add(top)
    locally_stubbed.append(top)
    return True


def setup_cloud(cloud):
    assert cloud in ('gcp', 'azure')
    already = [m for m in sys.modules if m == 'batch' or m.startswith('batch.')]
    assert not already or os.environ.get('CLOUD') == cloud, 'batch modules imported before CLOUD was fixed'
    os.environ['CLOUD'] = cloud
    os.environ['HAIL_QUERY_STORAGE_URI'] = (
        'gs://verif-bucket/query' if cloud == 'gcp' else 'https://verifacct.blob.core.windows.net/query'
    )
    os.environ['HAIL_QUERY_ACCEPTABLE_JAR_SUBFOLDER'] = '/jars'
    os.environ.pop('HAIL_TERRA', None)
    import vf.bootstrap as b

    _stub_if_missing('aiomysql')
    for _ in range(30):
        try:
            b.seed_global_config()
            break
        except ModuleNotFoundError as e:
            if not e.name or not _stub_if_missing(e.name.split('.')[0]):
                raise


def import_tolerant(name):
    for _ in range(40):
        try:
            return importlib.import_module(name)
        except ModuleNotFoundError as e:
            if not e.name or not _stub_if_missing(e.name.split('.')[0]):
                raise
    raise ImportError(f'could not import {name} even with inert stubs: {locally_stubbed}')


def shard_cloud(ctx):
    """even shards gcp, odd shards azure"""
    return 'gcp' if ctx.shard % 2 == 0 else 'azure'


# ---- fake billing tables ----------------------------------------------------------------------


class AnyProductDict(dict):
    """latest_product_versions where every product exists (version '1').

    ``strict_regions`` : gcp regional products exist only for real regions, so that the code's
    "backwards compatibility" fall-back names are exercised for anything else."""

    def __init__(self, info_cls, known_regions=()):
        super().__init__()
        self.info_cls = info_cls
        self.known_regions = tuple(known_regions)
        self.asked = set()

    def get(self, product, default=None):
        self.asked.add(product)
        if self.known_regions:
            parts = product.split('/')
            # regional gcp products end in a region: only the known ones exist
            if parts[0] in ('compute', 'memory', 'disk') and len(parts) >= 3:  # the products that have a non-regional fall-back
                last = parts[-1]
                if '-' in last and last[-1].isdigit() and last not in self.known_regions:
                    return default
        return self.info_cls(latest_version='1', sku=None)

    def __contains__(self, product):
        return self.get(product) is not None


class AnyRate(dict):
    """resource_rates: deterministic positive rate per resource name."""

    def __missing__(self, name):
        import zlib

        return 1e-9 * (1 + zlib.crc32(name.encode()) % 1000)

    def get(self, name, default=None):
        return self[name]


def make_product_versions(known_regions=()):
    from batch.driver.billing_manager import ProductVersionInfo, ProductVersions

    return ProductVersions(AnyProductDict(ProductVersionInfo, known_regions))


# ---- pool configurations ------------------------------------------------------------------------

WORKER_TYPES = {'gcp': ['standard', 'highmem', 'highcpu'], 'azure': ['D', 'E', 'F']}


def valid_pool_cores(cloud, worker_type, local_ssd):
    """cores the driver's pool-config page accepts (driver/main.py pool_config_update): the valid
    cores table filtered by 'unreserved local-ssd space >= 0'."""
    from batch.cloud.resource_utils import (
        local_ssd_size,
        possible_cores_from_worker_type,
        unreserved_worker_data_disk_size_gib,
    )

    out = []
    for cores in possible_cores_from_worker_type(cloud, worker_type):
        if not local_ssd:
            out.append(cores)
            continue
        if unreserved_worker_data_disk_size_gib(local_ssd_size(cloud, worker_type, cores), cores) >= 0:
            out.append(cores)
    return out


def is_pow2(n):
    return n > 0 and n & (n - 1) == 0


def make_pool_config(name, cloud, worker_type, cores, preemptible, label, local_ssd, ext_gb=None, boot_gb=10):
    from batch.inst_coll_config import PoolConfig

    return PoolConfig(
        name=name, cloud=cloud, worker_type=worker_type, worker_cores=cores,
        worker_local_ssd_data_disk=local_ssd,
        worker_external_ssd_data_disk_size_gb=0 if local_ssd else (ext_gb if ext_gb is not None else 30 + 5 * cores),
        standing_worker_cores=cores, boot_disk_size_gb=boot_gb, min_instances=0, max_instances=10, max_live_instances=10,
        preemptible=preemptible, max_new_instances_per_autoscaler_loop=10, autoscaler_loop_period_secs=15,
        worker_max_idle_time_secs=30, standing_worker_max_idle_time_secs=300, job_queue_scheduling_window_secs=150,
        label=label,
    )


def gen_pool_set(rng, cloud, power_of_two_only):
    """A generated deployment: 1..7 pools of `cloud` (sometimes one pool of the other cloud too)."""
    pools = {}
    n = rng.choice([1, 2, 3, 3, 4, 5, 7])
    shape = rng.random()
    for i in range(n):
        pc = cloud if rng.random() < 0.93 else ('azure' if cloud == 'gcp' else 'gcp')
        wt = rng.choice(WORKER_TYPES[pc])
        if shape < 0.35 and i < 3 and pc == cloud:  # the deployed shape: one pool per worker type
            wt = WORKER_TYPES[pc][i]
        local_ssd = rng.random() < 0.5
        cores_ok = valid_pool_cores(pc, wt, local_ssd)
        if power_of_two_only:
            cores_ok = [c for c in cores_ok if is_pow2(c)]
        if not cores_ok:
            local_ssd = False
            cores_ok = [c for c in valid_pool_cores(pc, wt, False) if is_pow2(c) or not power_of_two_only]
        cores = rng.choice(cores_ok)
        preemptible = rng.random() < 0.6
        label = rng.choice(['', '', '', 'seqr', 'large', 'A'])
        name = f'{wt}{"-np" if not preemptible else ""}{("-" + label) if label else ""}-{i}'
        pools[name] = make_pool_config(name, pc, wt, cores, preemptible, label, local_ssd, boot_gb=rng.choice([10, 20, 100]))
    return pools


def describe_pools(pools):
    return [
        {'name': p.name, 'cloud': p.cloud, 'worker_type': p.worker_type, 'cores': p.worker_cores, 'preemptible': p.preemptible,
         'label': p.label, 'local_ssd': p.worker_local_ssd_data_disk}
        for p in pools.values()
    ]


# ---- driving the real front-end `_create_jobs` with the database faked away -------------------------


class RecordingTx:
    def __init__(self, log):
        self.log = log

    async def execute_many(self, sql, args, query_name=None):
        self.log.append((query_name or sql.split()[2], [tuple(a) for a in args]))

    async def execute_update(self, sql, args=None, query_name=None):
        self.log.append((query_name or sql.split()[2], [tuple(args or ())]))

    async def just_execute(self, sql, args=None, query_name=None):
        self.log.append((query_name or 'just_execute', [tuple(args or ())]))


class FakeIncomplete(Exception):
    """the handler asked the fake database for something it does not model (=> INCONCLUSIVE, never a verdict)"""


class _Record(dict):
    def __missing__(self, key):
        raise FakeIncomplete(f'batch_updates lookup: column {key!r} is not modelled by the fake database')


class FakeDB:
    """What `_create_jobs` needs from gear.Database: the batch_updates lookup and a transaction whose
    INSERTs are recorded instead of executed.  No SQL is interpreted here (the SQL-backed properties
    are checked elsewhere); only the Python of the handler runs."""

    def __init__(self):
        self.format_version = 7
        self.update_start_job_id = 1
        self.update_start_job_group_id = 1
        self.log = []

    async def select_and_fetchone(self, sql, args=None, query_name=None):
        assert 'FROM batch_updates' in sql, sql
        return _Record({'state': 'running', 'format_version': self.format_version, 'committed': False,
                        'start_job_id': self.update_start_job_id, 'start_job_group_id': self.update_start_job_group_id,
                        'update_n_jobs': 10**6, 'n_jobs': 10**6})

    def start(self, read_only=False):
        db = self

        class _Ctx:
            async def __aenter__(self):
                return RecordingTx(db.log)

            async def __aexit__(self, *exc):
                return False

        return _Ctx()


class FakeFileStore:
    def __init__(self):
        self.written = []

    async def write_spec_file(self, batch_id, token, data_bytes, offsets_bytes):
        self.written.append((batch_id, token, data_bytes, offsets_bytes))


class CreateJobsDriver:
    """Calls the real ``batch.front_end.front_end._create_jobs`` (the coroutine behind the create-jobs
    routes, after the auth decorators and JSON decoding) on an ``app`` mapping."""

    def __init__(self, fe, inst_coll_configs, regions, loop):
        self.fe = fe
        self.db = FakeDB()
        self.fs = FakeFileStore()
        self.loop = loop
        self.app = {
            'db': self.db, 'file_store': self.fs, 'inst_coll_configs': inst_coll_configs, 'regions': regions,
            'feature_flags': {}, 'n_tokens': 200,
        }

    def create(self, user, job_specs, format_version=7, update_id=1, start_job_id=1):
        """returns ('ok', jobs_args, full_specs) | ('http', status, reason) | ('error', exc)"""
        from aiohttp import web

        self.db.format_version = format_version
        self.db.update_start_job_id = start_job_id
        self.db.log.clear()
        self.fs.written.clear()
        userdata = {'username': user, 'hail_credentials_secret_name': f'{user}-gsa-key', 'tokens_secret_name': f'{user}-tokens'}
        try:
            self.loop.run_until_complete(self.fe._create_jobs(userdata, job_specs, 7001, update_id, self.app))
        except web.HTTPException as e:
            return ('http', e.status, e.reason)
        except FakeIncomplete as e:
            from vf.harness import Inconclusive

            raise Inconclusive(str(e)) from e
        except Exception as e:  # noqa: BLE001
            return ('error', e)
        jobs = [rows for name, rows in self.db.log if name == 'insert_jobs']
        assert len(jobs) == 1, [n for n, _ in self.db.log]
        return ('ok', jobs[0], list(self.fs.written))


JOBS_COLUMNS = ('batch_id', 'job_id', 'update_id', 'job_group_id', 'state', 'spec', 'always_run', 'cores_mcpu', 'n_pending_parents',
                'inst_coll', 'n_regions', 'regions_bits_rep', 'n_max_attempts')


def make_inst_coll_configs(pools, jpim_cloud, known_regions=()):
    from batch.inst_coll_config import InstanceCollectionConfigs, JobPrivateInstanceManagerConfig

    jpim = JobPrivateInstanceManagerConfig(
        name='job-private', cloud=jpim_cloud, boot_disk_size_gb=10, max_instances=10, max_live_instances=10,
        max_new_instances_per_autoscaler_loop=10, autoscaler_loop_period_secs=15, worker_max_idle_time_secs=30,
    )
    icc = InstanceCollectionConfigs(pools, jpim, AnyRate(), {})
    icc.product_versions = make_product_versions(known_regions)
    return icc
