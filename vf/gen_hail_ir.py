"""Random hail expression DAGs built THROUGH the Python expression API (shared by C35 and C36).

Everything here only *calls* the repository's API (``hl.*``); no IR node is constructed by hand.  The
Table / MatrixTable program builders live in the monitors (vf/monitors/c35.py ``table_program``,
vf/monitors/c36.py phases ``table`` / ``matrix``); they use ``ExprGen`` with a ``Scope`` whose variables are the
row / column / entry / global fields.

Design of the expression generator (``ExprGen``)
------------------------------------------------
* type-directed: ``gen(tkey, depth, scope)`` with a small closed set of type keys;
* *deliberate sharing*: every generated Expression object is put in a pool together with the set of
  variable names it needs; ``gen`` re-uses pool entries (the very same Python object => the very same
  IR node object => a CSE candidate) whenever all needed names are bound in the current scope; the
  ``dup`` rule generates one expression (possibly itself a local aggregation) and uses it 2-4 times
  inside/outside a lambda / across an aggregation boundary / under both branches of a conditional;
* scopes follow the front end's own rules: lambda variables are usable in the lambda body;
  inside ``array.aggregate(lambda e: ...)`` (``StreamAgg``) the *result* position may use the outer
  variables and aggregations but not ``e``; aggregator arguments (*seq* position) may use ``e``, explode
  variables and outer aggregation variables but no lambda variables (``_check_agg_bindings``);
  ``stream._aggregate_scan`` (``StreamAggScan``) binds ``e`` in both the eval and the scan scope.
"""

# type keys --------------------------------------------------------------------------------------
SCALARS = ('i32', 'i64', 'f64', 'bool', 'str')
TKEYS = SCALARS + ('ai32', 'af64', 'aai32', 'st', 'tu')


def hail_type(hl, tkey):
    return {
        'i32': hl.tint32, 'i64': hl.tint64, 'f64': hl.tfloat64, 'bool': hl.tbool, 'str': hl.tstr,
        'ai32': hl.tarray(hl.tint32), 'af64': hl.tarray(hl.tfloat64), 'aai32': hl.tarray(hl.tarray(hl.tint32)),
        'st': hl.tstruct(a=hl.tint32, b=hl.tfloat64, c=hl.tarray(hl.tint32)),
        'tu': hl.ttuple(hl.tint32, hl.tfloat64),
    }[tkey]


ELEM = {'ai32': 'i32', 'af64': 'f64', 'aai32': 'ai32'}
ARRAY_OF = {v: k for k, v in ELEM.items()}


class Scope:
    """What may be referenced at the current generation position."""

    __slots__ = ('names', 'vars', 'mode', 'agg_id', 'lam', 'allow_agg')

    def __init__(self, names=frozenset(), vars=(), mode='eval', agg_id=None, lam=0, allow_agg=True):
        self.names = names          # variable names bound for *eval-position* references
        self.vars = vars            # tuple of (tkey, Expression, needed names) variables
        self.mode = mode            # 'eval' | 'aggres' (result position of a local aggregation) | 'seq'
        self.agg_id = agg_id        # identity of the enclosing aggregation (for re-using aggregated exprs)
        self.lam = lam              # number of lambdas entered since the aggregation result position
        self.allow_agg = allow_agg  # may a *new* local aggregation be started here

    def bind(self, *new_vars):
        """new_vars: (tkey, Ref-expression) lambda variables"""
        new = tuple((t, v, frozenset([v._ir.name])) for t, v in new_vars)
        names = self.names | frozenset(v._ir.name for _, v in new_vars)
        return Scope(names, self.vars + new, self.mode, self.agg_id, self.lam + 1, self.allow_agg)

    def pin(self, tkey, e, needs):
        """make an (already valid here) expression available like a variable"""
        return Scope(self.names, self.vars + ((tkey, e, needs),), self.mode, self.agg_id, self.lam, self.allow_agg)


class PoolEntry:
    __slots__ = ('expr', 'tkey', 'needs', 'has_agg', 'agg_id', 'size')

    def __init__(self, expr, tkey, needs, has_agg, agg_id, size):
        self.expr = expr
        self.tkey = tkey
        self.needs = needs
        self.has_agg = has_agg
        self.agg_id = agg_id
        self.size = size


def ir_needs(ir_mod, x):
    """names referenced but not bound inside x (context-insensitive; independent of IR.free_vars)"""
    refs = x.search(lambda n: isinstance(n, ir_mod.Ref))
    return frozenset(r.name for r in refs) - frozenset(x.bound_variables)


def dag_size(x, seen=None):
    if seen is None:
        seen = set()
    if id(x) in seen:
        return 0
    seen.add(id(x))
    n = 1
    for c in x.children:
        if hasattr(c, 'children'):
            n += dag_size(c, seen)
    return n


class ExprGen:
    def __init__(self, rng, hl, profile='c35', max_depth=6, max_nodes=260, p_share=0.32):
        import hail.ir as ir_mod

        self.rng = rng
        self.hl = hl
        self.ir = ir_mod
        self.profile = profile
        self.max_depth = max_depth
        self.max_nodes = max_nodes
        self.p_share = p_share
        self.pool = []
        self.n_agg = 0
        self.shared_uses = 0        # number of times a pool entry was re-used
        self.features = set()
        self.budget = 0

    # ---- pool ------------------------------------------------------------------------------
    def _register(self, e, tkey, S):
        x = e._ir
        needs = ir_needs(self.ir, x)
        has_agg = 'agg_capability' in x.free_vars
        self.pool.append(PoolEntry(e, tkey, needs, has_agg, S.agg_id if has_agg else None, 0))
        return e

    def _eligible(self, p, tkey, S):
        if p.tkey != tkey or not p.needs <= S.names:
            return False
        if p.has_agg:
            return S.mode == 'aggres' and S.lam == 0 and S.agg_id == p.agg_id
        return True

    def pick_shared(self, tkey, S):
        c = [p for p in self.pool if self._eligible(p, tkey, S)]
        if not c:
            return None
        # prefer recent and non-trivial entries
        p = self.rng.choice(c[-12:]) if self.rng.random() < 0.7 else self.rng.choice(c)
        self.shared_uses += 1
        return p.expr

    # ---- entry point -----------------------------------------------------------------------
    def gen(self, tkey, d, S):
        self.budget += 1
        if self.budget > self.max_nodes:
            d = max(d, self.max_depth)  # force leaves
        if d > 0 and self.rng.random() < self.p_share:
            e = self.pick_shared(tkey, S)
            if e is not None:
                return e
        if S.lam > 0 and S.allow_agg and tkey != 'tu' and not self.leaf(d + 2) and self.rng.random() < 0.2:
            # inside a lambda: a local aggregation used several times (its result position may mention the lambda variable)
            e = self.g_dup(tkey, d, S, force_agg=True)
        else:
            e = getattr(self, 'g_' + tkey)(d, S)
        e = self.hl.expr.expressions.to_expr(e) if not hasattr(e, '_ir') else e
        return self._register(e, tkey, S)

    def leaf(self, d):
        return d >= self.max_depth

    def choose(self, rules, d):
        """rules: list of (weight, name, is_leaf)"""
        if self.leaf(d):
            rules = [r for r in rules if r[2]]
        tot = sum(r[0] for r in rules)
        x = self.rng.random() * tot
        for w, name, _ in rules:
            x -= w
            if x <= 0:
                return name
        return rules[-1][1]

    def var_of(self, tkey, S):
        c = [v for t, v, _ in S.vars if t == tkey]
        return self.rng.choice(c) if c else None

    # ---- scalars ---------------------------------------------------------------------------
    def small_int(self):
        return self.rng.choice([0, 1, 1, 2, 2, 3, 4, 5, 7, -1, -3])

    def g_i32(self, d, S):
        hl, r = self.hl, self.rng
        rules = [(3, 'lit', True), (4, 'var', True), (5, 'arith', False), (2, 'if', False), (2, 'len', False),
                 (2, 'index', False), (2, 'fold', False), (1.5, 'field', False), (1, 'tupidx', False),
                 (2, 'bind', False), (1.2, 'coalesce', False), (0.6, 'na', True), (1.5, 'dup', False),
                 (1, 'cast', False), (0.8, 'neg', False), (1, 'aggmax', False), (0.7, 'case', False),
                 (0.6, 'mod', False), (0.6, 'sum', False)]
        k = self.choose(rules, d)
        self.features.add('i32:' + k)
        if k == 'var':
            v = self.var_of('i32', S)
            if v is not None:
                return v
            k = 'lit'
        if k == 'lit':
            return hl.int32(self.small_int())
        if k == 'na':
            return hl.missing(hl.tint32)
        if k == 'arith':
            a, b = self.gen('i32', d + 1, S), self.gen('i32', d + 1, S)
            op = r.choice('++-*')
            return a + b if op == '+' else a - b if op == '-' else a * b
        if k == 'mod':
            return self.gen('i32', d + 1, S) % hl.int32(r.choice([2, 3, 5]))
        if k == 'neg':
            return -self.gen('i32', d + 1, S)
        if k == 'if':
            return self.g_if('i32', d, S)
        if k == 'case':
            c = hl.case()
            for _ in range(r.randint(1, 2)):
                c = c.when(self.gen('bool', d + 1, S), self.gen('i32', d + 1, S))
            return c.default(self.gen('i32', d + 1, S))
        if k == 'len':
            return hl.len(self.gen(r.choice(['ai32', 'af64', 'aai32']), d + 1, S))
        if k == 'index':
            return self.gen('ai32', d + 1, S)[self.gen('i32', d + 2, S) if r.random() < 0.4 else r.randint(0, 2)]
        if k == 'fold':
            return self.g_fold('i32', 'ai32', d, S)
        if k == 'sum':
            return hl.sum(self.gen('ai32', d + 1, S))
        if k == 'field':
            return self.gen('st', d + 1, S).a
        if k == 'tupidx':
            return self.gen('tu', d + 1, S)[0]
        if k == 'bind':
            return self.g_bind('i32', d, S)
        if k == 'coalesce':
            return self.g_coalesce('i32', d, S)
        if k == 'cast':
            return hl.int32(self.gen(r.choice(['i64', 'f64']), d + 1, S))
        if k == 'dup':
            return self.g_dup('i32', d, S)
        if k == 'aggmax':
            e = self.g_local_agg('i32', d, S)
            return e if e is not None else hl.int32(self.small_int())
        raise AssertionError(k)

    def g_i64(self, d, S):
        hl, r = self.hl, self.rng
        rules = [(2, 'lit', True), (2, 'var', True), (3, 'cast', True), (3, 'arith', False), (1.5, 'if', False),
                 (4, 'agg', False), (1, 'bind', False), (1, 'dup', False), (0.5, 'na', True), (1, 'fold', False)]
        k = self.choose(rules, d)
        self.features.add('i64:' + k)
        if k == 'var':
            v = self.var_of('i64', S)
            if v is not None:
                return v
            k = 'lit'
        if k == 'lit':
            return hl.int64(self.small_int() * r.choice([1, 1, 1000]))
        if k == 'na':
            return hl.missing(hl.tint64)
        if k == 'cast':
            return hl.int64(self.gen('i32', min(d + 1, self.max_depth), S))
        if k == 'arith':
            a = self.gen('i64', d + 1, S)
            b = self.gen(r.choice(['i64', 'i32']), d + 1, S)  # int32 operand is coerced by the front end
            op = r.choice('+-*')
            return a + b if op == '+' else a - b if op == '-' else a * b
        if k == 'if':
            return self.g_if('i64', d, S)
        if k == 'bind':
            return self.g_bind('i64', d, S)
        if k == 'dup':
            return self.g_dup('i64', d, S)
        if k == 'fold':
            return self.g_fold('i64', 'ai32', d, S)
        if k == 'agg':
            e = self.g_local_agg('i64', d, S)
            return e if e is not None else hl.int64(self.gen('i32', d + 1, S))
        raise AssertionError(k)

    def g_f64(self, d, S):
        hl, r = self.hl, self.rng
        rules = [(2, 'lit', True), (2, 'var', True), (2, 'cast', True), (4, 'arith', False), (2, 'div', False),
                 (1.5, 'if', False), (1.5, 'field', False), (1, 'tupidx', False), (2, 'agg', False),
                 (1, 'bind', False), (1.2, 'dup', False), (0.5, 'na', True), (1, 'index', False), (1, 'fold', False),
                 (0.8, 'coalesce', False)]
        k = self.choose(rules, d)
        self.features.add('f64:' + k)
        if k == 'var':
            v = self.var_of('f64', S)
            if v is not None:
                return v
            k = 'lit'
        if k == 'lit':
            return hl.float64(r.choice([0.0, 0.5, 1.5, 2.0, -2.25, 10.0, 3.0]))
        if k == 'na':
            return hl.missing(hl.tfloat64)
        if k == 'cast':
            return hl.float64(self.gen(r.choice(['i32', 'i64']), min(d + 1, self.max_depth), S))
        if k == 'arith':
            a = self.gen('f64', d + 1, S)
            b = self.gen(r.choice(['f64', 'f64', 'i32', 'i64']), d + 1, S)  # mixed: front end inserts coercions
            if r.random() < 0.5:
                a, b = b, a
            op = r.choice('+-*')
            return a + b if op == '+' else a - b if op == '-' else a * b
        if k == 'div':
            return self.gen(r.choice(['i32', 'f64', 'i64']), d + 1, S) / self.gen(r.choice(['i32', 'f64']), d + 1, S)
        if k == 'if':
            return self.g_if('f64', d, S)
        if k == 'field':
            return self.gen('st', d + 1, S).b
        if k == 'tupidx':
            return self.gen('tu', d + 1, S)[1]
        if k == 'index':
            return self.gen('af64', d + 1, S)[r.randint(0, 2)]
        if k == 'bind':
            return self.g_bind('f64', d, S)
        if k == 'dup':
            return self.g_dup('f64', d, S)
        if k == 'fold':
            return self.g_fold('f64', r.choice(['af64', 'ai32']), d, S)
        if k == 'coalesce':
            return self.g_coalesce('f64', d, S)
        if k == 'agg':
            e = self.g_local_agg('f64', d, S)
            return e if e is not None else hl.float64(self.gen('i32', d + 1, S))
        raise AssertionError(k)

    def g_bool(self, d, S):
        hl, r = self.hl, self.rng
        rules = [(1.5, 'lit', True), (1, 'var', True), (5, 'cmp', False), (2, 'logic', False), (1, 'not', False),
                 (1.5, 'isna', False), (0.8, 'if', False), (0.8, 'dup', False), (0.8, 'any', False), (0.4, 'na', True),
                 (0.8, 'agg', False)]
        k = self.choose(rules, d)
        self.features.add('bool:' + k)
        if k == 'var':
            v = self.var_of('bool', S)
            if v is not None:
                return v
            k = 'lit'
        if k == 'lit':
            return hl.bool(r.random() < 0.6)
        if k == 'na':
            return hl.missing(hl.tbool)
        if k == 'cmp':
            t = r.choice(['i32', 'i32', 'f64', 'i64'])
            a = self.gen(t, d + 1, S)
            b = self.gen(r.choice([t, 'i32']), d + 1, S)
            op = r.choice(['<', '<=', '>', '>=', '==', '!='])
            return {'<': a < b, '<=': a <= b, '>': a > b, '>=': a >= b, '==': a == b, '!=': a != b}[op]
        if k == 'logic':
            a, b = self.gen('bool', d + 1, S), self.gen('bool', d + 1, S)
            return (a & b) if r.random() < 0.5 else (a | b)
        if k == 'not':
            return ~self.gen('bool', d + 1, S)
        if k == 'isna':
            x = self.gen(r.choice(['i32', 'f64', 'ai32', 'st']), d + 1, S)
            return hl.is_missing(x) if r.random() < 0.5 else hl.is_defined(x)
        if k == 'if':
            return self.g_if('bool', d, S)
        if k == 'dup':
            return self.g_dup('bool', d, S)
        if k == 'any':
            a = self.gen('ai32', d + 1, S)
            f = hl.any if r.random() < 0.5 else hl.all
            return f(lambda x: self.gen('bool', d + 2, S.bind(('i32', x))), a)
        if k == 'agg':
            e = self.g_local_agg('bool', d, S)
            return e if e is not None else hl.bool(True)
        raise AssertionError(k)

    def g_str(self, d, S):
        hl, r = self.hl, self.rng
        rules = [(3, 'lit', True), (1, 'var', True), (2, 'concat', False), (2, 'str', False), (1, 'if', False), (0.7, 'dup', False)]
        k = self.choose(rules, d)
        self.features.add('str:' + k)
        if k == 'var':
            v = self.var_of('str', S)
            if v is not None:
                return v
            k = 'lit'
        if k == 'lit':
            return hl.str(r.choice(['', 'a', 'xy', 'q r', 'é']))
        if k == 'concat':
            return self.gen('str', d + 1, S) + self.gen('str', d + 1, S)
        if k == 'str':
            return hl.str(self.gen(r.choice(['i32', 'bool', 'i64']), d + 1, S))
        if k == 'if':
            return self.g_if('str', d, S)
        if k == 'dup':
            return self.g_dup('str', d, S)
        raise AssertionError(k)

    # ---- arrays ----------------------------------------------------------------------------
    def g_array(self, tkey, d, S):
        hl, r = self.hl, self.rng
        et = ELEM[tkey]
        rules = [(4, 'make', True), (2, 'var', True), (4, 'map', False), (2.5, 'filter', False), (1.5, 'flatmap', False),
                 (1.2, 'if', False), (1, 'bind', False), (1.5, 'dup', False), (0.5, 'na', True), (1, 'scan', False),
                 (1, 'collect', False), (0.7, 'coalesce', False), (0.8, 'aggscan', False)]
        if tkey == 'ai32':
            rules += [(2, 'range', False), (1.2, 'field', False), (1, 'index', False), (0.8, 'arith', False),
                      (0.7, 'sorted', False), (0.7, 'slice', False), (0.7, 'append', False)]
        if tkey == 'af64':
            rules += [(1, 'arith', False)]
        k = self.choose(rules, d)
        self.features.add(tkey + ':' + k)
        if k == 'var':
            v = self.var_of(tkey, S)
            if v is not None:
                return v
            k = 'make'
        if k == 'make':
            n = r.choice([0, 1, 2, 2, 3, 3, 4]) if not self.leaf(d) else r.choice([1, 2, 3])
            dd = min(d + 1, self.max_depth)
            if n == 0:
                return hl.empty_array(hail_type(hl, et))
            return hl.array([self.gen(et, dd, S) for _ in range(n)])
        if k == 'na':
            return hl.missing(hail_type(hl, tkey))
        if k == 'range':
            return hl.range(hl.min(hl.abs(self.gen('i32', d + 1, S)), 4)) if r.random() < 0.5 else hl.range(r.randint(0, 4))
        if k == 'map':
            src = r.choice(['ai32', 'af64', 'aai32']) if r.random() < 0.5 else tkey
            a = self.gen(src, d + 1, S)
            return a.map(lambda x: self.gen(et, d + 2, S.bind((ELEM[src], x))))
        if k == 'filter':
            a = self.gen(tkey, d + 1, S)
            return a.filter(lambda x: self.gen('bool', d + 2, S.bind((et, x))))
        if k == 'flatmap':
            src = r.choice(['ai32', 'af64', 'aai32'])
            a = self.gen(src, d + 1, S)
            return a.flatmap(lambda x: self.gen(tkey, d + 2, S.bind((ELEM[src], x))))
        if k == 'if':
            return self.g_if(tkey, d, S)
        if k == 'bind':
            return self.g_bind(tkey, d, S)
        if k == 'dup':
            return self.g_dup(tkey, d, S)
        if k == 'coalesce':
            return self.g_coalesce(tkey, d, S)
        if k == 'field':
            return self.gen('st', d + 1, S).c
        if k == 'index':
            return self.gen('aai32', d + 1, S)[r.randint(0, 1)]
        if k == 'arith':
            a = self.gen(tkey, d + 1, S)
            b = self.gen(r.choice([tkey, et]), d + 1, S)
            return a + b if r.random() < 0.5 else a * b
        if k == 'sorted':
            a = self.gen(tkey, d + 1, S)
            if r.random() < 0.5:
                return hl.sorted(a)
            return hl.sorted(a, key=lambda x: self.gen('i32', d + 2, S.bind((et, x))))
        if k == 'slice':
            a = self.gen(tkey, d + 1, S)
            return a[r.randint(0, 1):] if r.random() < 0.5 else a[: r.randint(1, 3)]
        if k == 'append':
            return self.gen(tkey, d + 1, S).append(self.gen(et, d + 1, S))
        if k == 'scan':
            src = r.choice(['ai32', 'af64'])
            a = self.gen(src, d + 1, S)
            z = self.gen(et, d + 1, S)
            return hl.array_scan(lambda acc, x: self.gen(et, d + 2, S.bind((et, acc), (ELEM[src], x))), z, a)
        if k == 'collect':
            e = self.g_local_agg(tkey, d, S)
            return e if e is not None else hl.array([self.gen(et, d + 1, S)])
        if k == 'aggscan':
            e = self.g_local_scan(tkey, d, S)
            return e if e is not None else hl.array([self.gen(et, d + 1, S)])
        raise AssertionError(k)

    def g_ai32(self, d, S):
        return self.g_array('ai32', d, S)

    def g_af64(self, d, S):
        return self.g_array('af64', d, S)

    def g_aai32(self, d, S):
        return self.g_array('aai32', d, S)

    # ---- structs / tuples ------------------------------------------------------------------
    def g_st(self, d, S):
        hl, r = self.hl, self.rng
        rules = [(4, 'make', True), (1.5, 'var', True), (3, 'annotate', False), (1.5, 'select', False), (1, 'if', False),
                 (1, 'bind', False), (1.2, 'dup', False), (0.4, 'na', True), (0.8, 'arrelem', False)]
        k = self.choose(rules, d)
        self.features.add('st:' + k)
        dd = min(d + 1, self.max_depth)
        if k == 'var':
            v = self.var_of('st', S)
            if v is not None:
                return v
            k = 'make'
        if k == 'make':
            return hl.struct(a=self.gen('i32', dd, S), b=self.gen('f64', dd, S), c=self.gen('ai32', dd, S))
        if k == 'na':
            return hl.missing(hail_type(hl, 'st'))
        if k == 'annotate':
            s = self.gen('st', d + 1, S)
            kw = {}
            for f, t in (('a', 'i32'), ('b', 'f64'), ('c', 'ai32')):
                if r.random() < 0.5:
                    kw[f] = self.gen(t, d + 1, S)
            if not kw:
                kw['a'] = self.gen('i32', d + 1, S)
            return s.annotate(**kw)
        if k == 'select':
            # goes through SelectFields + InsertFields and back to the canonical struct type
            s = self.gen('st', d + 1, S)
            t = s.select('a', 'c', z=self.gen('f64', d + 1, S)) if r.random() < 0.5 else s.drop('b').annotate(z=self.gen('f64', d + 1, S))
            return hl.struct(a=t.a, b=t.z, c=t.c)
        if k == 'if':
            return self.g_if('st', d, S)
        if k == 'bind':
            return self.g_bind('st', d, S)
        if k == 'dup':
            return self.g_dup('st', d, S)
        if k == 'arrelem':
            n = r.randint(1, 3)
            a = hl.array([self.gen('st', d + 1, S) for _ in range(n)])
            return a[r.randint(0, n - 1)]
        raise AssertionError(k)

    def g_tu(self, d, S):
        hl = self.hl
        self.features.add('tu:make')
        dd = min(d + 1, self.max_depth)
        return hl.tuple([self.gen('i32', dd, S), self.gen('f64', dd, S)])

    # ---- shared combinators ----------------------------------------------------------------
    def g_if(self, tkey, d, S):
        hl = self.hl
        c = self.gen('bool', d + 1, S)
        a = self.gen(tkey, d + 1, S)
        b = self.gen(tkey, d + 1, S)
        f = hl.if_else if self.rng.random() < 0.7 else hl.cond
        return f(c, a, b)

    def g_coalesce(self, tkey, d, S):
        hl = self.hl
        xs = [self.gen(tkey, d + 1, S) for _ in range(self.rng.randint(2, 3))]
        return hl.or_else(xs[0], xs[1]) if len(xs) == 2 and self.rng.random() < 0.5 else hl.coalesce(*xs)

    def g_bind(self, tkey, d, S):
        hl, r = self.hl, self.rng
        vt = r.choice(['i32', 'f64', 'ai32', 'st', 'i32'])
        v = self.gen(vt, d + 1, S)
        body = lambda x: self.gen(tkey, d + 2, S.bind((vt, x)))  # noqa: E731
        return hl.bind(body, v) if r.random() < 0.5 else hl.rbind(v, body)

    def g_fold(self, tkey, src, d, S):
        hl = self.hl
        a = self.gen(src, d + 1, S)
        z = self.gen(tkey, d + 1, S)
        return hl.fold(lambda acc, x: self.gen(tkey, d + 2, S.bind((tkey, acc), (ELEM[src], x))), z, a)

    def g_dup(self, tkey, d, S, force_agg=False):
        """one expression object used 2-4 times: outside and inside a lambda, in both branches of a
        conditional, in several struct fields ..."""
        hl, r = self.hl, self.rng
        st = r.choice(['i32', 'f64', 'ai32', 'i32', tkey])
        x = None
        if (force_agg or r.random() < 0.3) and S.allow_agg and not self.leaf(d + 2):
            # the shared object is itself a local aggregation (its result position may mention lambda variables)
            st = r.choice(['i64', 'f64', 'ai32', 'i32'])
            x = self.g_local_agg(st, d, S)
            if x is not None:
                self._register(x, st, S)
                self.features.add('dup:shared-local-agg')
        if x is None:
            x = self.gen(st, d + 1, S)  # the shared object
        xneeds = ir_needs(self.ir, x._ir)
        self.features.add('dup:' + st + '->' + tkey)
        self.shared_uses += 1

        def use(S2, dd):
            # an expression of type tkey that mentions x (at least once, often twice)
            if st == tkey:
                y = self.gen(tkey, dd, S2)
                if tkey in ('i32', 'f64', 'i64'):
                    return x + y * x if r.random() < 0.5 else x * y
                if tkey == 'bool':
                    return x & y
                if tkey == 'str':
                    return x + y + x
                if tkey in ELEM:
                    return x.extend(y) if r.random() < 0.5 else hl.if_else(hl.len(x) > hl.len(y), x, y)
                if tkey == 'st':
                    return hl.if_else(hl.is_defined(x.a), x, y)
                return x
            return self.gen(tkey, dd, S2.pin(st, x, xneeds))

        shape = r.choice(['twice', 'lambda', 'branches', 'agg']) if tkey != 'tu' else 'twice'
        if shape == 'lambda' and not self.leaf(d + 1) and tkey in ARRAY_OF:
            # x outside and inside a map / fold lambda
            a = self.gen('ai32', d + 1, S)
            if tkey in ('i32', 'f64') and r.random() < 0.5:
                return hl.fold(lambda acc, e: acc + use(S.bind((tkey, acc), ('i32', e)), d + 2), use(S, d + 1), a)
            inner = a.map(lambda e: use(S.bind(('i32', e)), d + 2))  # array<tkey>
            return hl.coalesce(inner[0], use(S, d + 1))
        if shape == 'branches':
            c = self.gen('bool', d + 1, S) if st != 'bool' else x
            return hl.if_else(c, use(S, d + 1), use(S, d + 1))
        if shape == 'agg' and not self.leaf(d + 1) and S.allow_agg and tkey in ('i64', 'f64', 'ai32', 'af64', 'aai32', 'bool', 'i32'):
            e = self.g_local_agg(tkey, d, S, pinned=(st, x))
            if e is not None:
                return e
        a, b = use(S, d + 1), use(S, d + 1)
        if tkey in ('i32', 'f64', 'i64'):
            return a + b
        if tkey == 'bool':
            return a | b
        if tkey == 'str':
            return a + b
        if tkey in ELEM:
            return a.extend(b)
        if tkey == 'st':
            return a.annotate(a=b.a)
        return hl.tuple([a[0] + b[0], a[1] * b[1]])

    # ---- local aggregation: array.aggregate(lambda e: ...)  => StreamAgg -------------------------
    def g_local_agg(self, tkey, d, S, pinned=None):
        """expression of type tkey computed by aggregating over an array.  Returns None when not
        possible here (depth, or inside an aggregator argument position that forbids it)."""
        hl, r = self.hl, self.rng
        if self.leaf(d + 1) or not S.allow_agg:
            return None
        src = r.choice(['ai32', 'ai32', 'af64', 'aai32'])
        a = self.gen(src, d + 1, S)
        self.n_agg += 1
        agg_id = self.n_agg
        self.features.add('localagg:' + tkey)
        extra = ((pinned[0], pinned[1], ir_needs(self.ir, pinned[1]._ir)),) if pinned is not None else ()

        def body(e):
            ename = e._ir.name
            # result position: outer eval names (+ aggregations of THIS aggregation); not e
            Sres = Scope(S.names, S.vars + extra, 'aggres', agg_id, 0, True)
            # aggregator-argument position: e, plus outer names the front end allows to be aggregated
            ok = frozenset(n for n in S.names if n.startswith('__uid_agg') or n.startswith('__uid_scan'))
            # (pinned expressions whose needed names are all allowed may be used inside aggregator arguments too)
            seq_vars = tuple(v for v in S.vars + extra if v[2] <= ok) + ((ELEM[src], e, frozenset([ename])),)
            Sseq = Scope(ok | {ename}, seq_vars, 'seq', agg_id, 0, True)
            return self.g_aggres(tkey, d + 2, Sres, Sseq)

        return a.aggregate(body)

    def g_aggres(self, tkey, d, Sres, Sseq):
        """an expression of type tkey in the result position of an aggregation"""
        hl, r = self.hl, self.rng
        A = hl.agg
        if r.random() < 0.25:
            e = self.pick_shared(tkey, Sres)
            if e is not None and 'agg_capability' in e._ir.free_vars:
                return e

        def seq(t, dd=d):
            return self.gen(t, min(dd + 1, self.max_depth), Sseq)

        def wrap(mk):
            """optionally under agg.filter / agg.explode (explode binds a new aggregated variable)"""
            x = r.random()
            if x < 0.2:
                return A.filter(seq('bool'), mk(Sseq))
            if x < 0.32 and not self.leaf(d + 1):
                arr = seq('ai32')

                def f(v):
                    S2 = Scope(Sseq.names | {v._ir.name}, Sseq.vars + (('i32', v, frozenset([v._ir.name])),), 'seq', Sseq.agg_id, 0, True)
                    return mk(S2)

                return A.explode(f, arr)
            return mk(Sseq)

        def g(t, S2):
            return self.gen(t, min(d + 1, self.max_depth), S2)

        if tkey == 'i64':
            k = r.choice(['sum', 'sum', 'count', 'count_where', 'combine'])
            if k == 'sum':
                base = wrap(lambda S2: A.sum(g(r.choice(['i32', 'i64']), S2)))
            elif k == 'count':
                base = wrap(lambda S2: A.count())
            elif k == 'count_where':
                base = wrap(lambda S2: A.count_where(g('bool', S2)))
            else:
                base = wrap(lambda S2: A.sum(g('i32', S2))) + wrap(lambda S2: A.count())
        elif tkey == 'f64':
            k = r.choice(['sum', 'mean', 'fraction', 'combine'])
            if k == 'sum':
                base = wrap(lambda S2: A.sum(g('f64', S2)))
            elif k == 'mean':
                base = wrap(lambda S2: A.mean(g(r.choice(['f64', 'i32']), S2)))
            elif k == 'fraction':
                base = wrap(lambda S2: A.fraction(g('bool', S2)))
            else:
                base = wrap(lambda S2: A.sum(g('f64', S2))) / hl.float64(wrap(lambda S2: A.count()))
        elif tkey == 'i32':
            base = wrap(lambda S2: (A.max if r.random() < 0.5 else A.min)(g('i32', S2)))
        elif tkey == 'bool':
            base = wrap(lambda S2: (A.any if r.random() < 0.5 else A.all)(g('bool', S2)))
        elif tkey in ELEM:
            if r.random() < 0.75:
                base = wrap(lambda S2: A.collect(g(ELEM[tkey], S2)))
            else:
                base = wrap(lambda S2: A.take(g(ELEM[tkey], S2), r.randint(1, 3)))
        else:
            return None
        self._register(base, tkey, Sres)
        # mix with result-position (eval scope) expressions: shared objects cross the aggregation boundary here
        x = r.random()
        # bias: mention an enclosing lambda variable in the result position (cheap, also at the depth limit)
        lam_vars = [(t, v) for t, v, _ in Sres.vars if t in ('i32', 'f64', 'i64') and isinstance(v._ir, self.ir.Ref)]
        if lam_vars and r.random() < 0.45 and tkey in ('i64', 'f64', 'i32', 'ai32', 'af64'):
            vt, v = r.choice(lam_vars)
            self.features.add('aggres:mentions-lambda-var')
            if tkey == 'i64':
                return base + hl.int64(v) if vt != 'f64' else base + hl.int64(hl.int32(v))
            if tkey == 'f64':
                return base * hl.float64(v)
            if tkey == 'i32':
                return base - hl.int32(v)
            if tkey == 'ai32':
                return base.append(hl.int32(v))
            return base.append(hl.float64(v))
        if x < 0.45 and not self.leaf(d):
            o = self.gen(tkey, d + 1, Sres)
            if tkey in ('i64', 'f64', 'i32'):
                return base + o if r.random() < 0.6 else o * base
            if tkey == 'bool':
                return base & o
            return base.extend(o)
        if x < 0.6 and not self.leaf(d):
            c = self.gen('bool', d + 1, Sres)
            return hl.if_else(c, base, self.gen(tkey, d + 1, Sres))
        return base

    # ---- local scan: stream._aggregate_scan(lambda e: ...)  => StreamAggScan ---------------------
    def g_local_scan(self, tkey, d, S):
        hl, r = self.hl, self.rng
        if self.leaf(d + 1) or S.mode != 'eval' or not S.allow_agg:
            return None
        src = r.choice(['ai32', 'af64'])
        a = self.gen(src, d + 1, S)
        et = ELEM[tkey]
        self.features.add('localscan:' + tkey)

        def body(e):
            # the body of a StreamAggScan is evaluated per element with e bound in BOTH eval and scan scope
            ok = frozenset(n for n in S.names if n.startswith('__uid_agg') or n.startswith('__uid_scan'))
            ev = (ELEM[src], e, frozenset([e._ir.name]))
            Sseq = Scope(ok | {e._ir.name}, tuple(v for v in S.vars if v[2] <= ok) + (ev,), 'seq', None, 0, False)
            Sev = Scope(S.names | {e._ir.name}, S.vars + (ev,), 'eval', None, S.lam + 1, False)
            sc = hl.scan
            if et == 'i32':
                s = hl.int32(sc.sum(self.gen('i32', d + 2, Sseq)))
            elif et == 'f64':
                s = sc.sum(self.gen('f64', d + 2, Sseq))
            else:
                s = sc.collect(self.gen('i32', d + 2, Sseq))
            o = self.gen(et, d + 2, Sev)
            if et == 'ai32':
                return s.extend(o)
            return s + o if r.random() < 0.7 else hl.if_else(self.gen('bool', d + 2, Sev), s, o)

        return a._to_stream()._aggregate_scan(body).to_array()

    # ---- top level -------------------------------------------------------------------------
    def program(self):
        """a closed expression of a random type"""
        r = self.rng
        S = Scope()
        t = r.choice(['i32', 'f64', 'ai32', 'st', 'i64', 'af64', 'bool', 'aai32', 'str', 'tu', 'st', 'ai32'])
        kind = r.random()
        if kind < 0.35:
            # a struct of several fields generated with the same pool: cross-field sharing
            fields = {f'f{i}': self.gen(r.choice(['i32', 'f64', 'ai32', 'i64', 'st', 'bool', 'af64']), 1, S) for i in range(r.randint(2, 4))}
            return self.hl.struct(**fields)
        return self.gen(t, 0, S)
