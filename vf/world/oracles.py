"""Invariant oracles over the committed state of the batch database (recomputed from first
principles from the tables; nothing here calls repository code)."""
from collections import defaultdict

LIVE = ('Ready', 'Creating', 'Running')
TERMINAL = ('Success', 'Failed', 'Error', 'Cancelled')


class View:
    """derived facts shared by the oracles (one pass over the tiny tables)"""

    def __init__(self, eng):
        T = eng.tables
        self.eng = eng
        self.batches = {r['id']: r for r in T['batches'].rows}
        self.updates = {(r['batch_id'], r['update_id']): r for r in T['batch_updates'].rows}
        self.groups = {(r['batch_id'], r['job_group_id']): r for r in T['job_groups'].rows}
        self.cancelled = {(r['id'], r['job_group_id']) for r in T['job_groups_cancelled'].rows}
        self.ancestors = defaultdict(set)  # (b, g) -> {ancestors incl self}
        self.descendants = defaultdict(set)  # (b, a) -> {groups having a as ancestor-or-self}
        for r in T['job_group_self_and_ancestors'].rows:
            self.ancestors[(r['batch_id'], r['job_group_id'])].add(r['ancestor_id'])
            self.descendants[(r['batch_id'], r['ancestor_id'])].add(r['job_group_id'])
        self.jobs = {(r['batch_id'], r['job_id']): r for r in T['jobs'].rows}
        self.parents = defaultdict(list)
        self.children = defaultdict(list)
        for r in T['job_parents'].rows:
            self.parents[(r['batch_id'], r['job_id'])].append(r['parent_id'])
            self.children[(r['batch_id'], r['parent_id'])].append(r['job_id'])

    def group_cancelled(self, b, g):
        return any((b, a) in self.cancelled for a in self.ancestors.get((b, g), {g}))

    def committed(self, j):
        u = self.updates.get((j['batch_id'], j['update_id']))
        return bool(u and u['committed'])

    def marked_cancelled(self, j):
        return bool(j['cancelled']) or self.group_cancelled(j['batch_id'], j['job_group_id'])

    def cancelled_eff(self, j):
        return (not j['always_run']) and self.marked_cancelled(j)


# ---- C01 ------------------------------------------------------------------------------------------
UICR_COLS = ['n_ready_jobs', 'n_running_jobs', 'n_creating_jobs', 'ready_cores_mcpu', 'running_cores_mcpu',
             'n_cancelled_ready_jobs', 'n_cancelled_running_jobs', 'n_cancelled_creating_jobs']
CANC_COLS = ['n_ready_cancellable_jobs', 'ready_cancellable_cores_mcpu', 'n_creating_cancellable_jobs',
             'n_running_cancellable_jobs', 'running_cancellable_cores_mcpu']


def c01(v: View, committed_only=True):
    out = []
    T = v.eng.tables
    have = defaultdict(lambda: dict.fromkeys(UICR_COLS, 0))
    for r in T['user_inst_coll_resources'].rows:
        h = have[(r['user'], r['inst_coll'])]
        for c in UICR_COLS:
            h[c] += r[c]
    want = defaultdict(lambda: dict.fromkeys(UICR_COLS, 0))
    for j in v.jobs.values():
        if not v.committed(j) or j['state'] not in LIVE:
            continue
        user = v.batches[j['batch_id']]['user']
        w = want[(user, j['inst_coll'])]
        st = j['state'].lower()
        if v.cancelled_eff(j):
            w[f'n_cancelled_{st}_jobs'] += 1
        else:
            w[f'n_{st}_jobs'] += 1
            if st != 'creating':
                w[f'{st}_cores_mcpu'] += j['cores_mcpu']
    for k in set(have) | set(want):
        h, w = have[k], want[k]
        bad = {c: (h[c], w[c]) for c in UICR_COLS if h[c] != w[c]}
        if bad:
            out.append(('user-counters/mismatch', f'user_inst_coll_resources{k}: (have, recomputed) = {bad}', {'key': list(k), 'diff': bad}))
    # job-group cancellable counters (non-cancelled groups, committed updates)
    haveg = defaultdict(lambda: dict.fromkeys(CANC_COLS, 0))
    for r in T['job_group_inst_coll_cancellable_resources'].rows:
        u = v.updates.get((r['batch_id'], r['update_id']))
        if not (u and u['committed']):
            continue
        h = haveg[(r['batch_id'], r['job_group_id'], r['inst_coll'])]
        for c in CANC_COLS:
            h[c] += r[c]
    wantg = defaultdict(lambda: dict.fromkeys(CANC_COLS, 0))
    for j in v.jobs.values():
        if not v.committed(j) or j['state'] not in LIVE or j['always_run'] or v.marked_cancelled(j):
            continue
        st = j['state'].lower()
        for a in v.ancestors.get((j['batch_id'], j['job_group_id']), ()):
            w = wantg[(j['batch_id'], a, j['inst_coll'])]
            w[f'n_{st}_cancellable_jobs'] += 1
            if st != 'creating':
                w[f'{st}_cancellable_cores_mcpu'] += j['cores_mcpu']
    for k in set(haveg) | set(wantg):
        b, g, ic = k
        if v.group_cancelled(b, g):
            continue  # rows of cancelled groups are stale by design until the cleanup loop deletes them
        h, w = haveg[k], wantg[k]
        bad = {c: (h[c], w[c]) for c in CANC_COLS if h[c] != w[c]}
        if bad:
            out.append(('group-cancellable/mismatch', f'job_group_inst_coll_cancellable_resources{k}: (have, recomputed) = {bad}', {'key': list(k), 'diff': bad}))
    return out


# ---- C04 / C06 tallies -------------------------------------------------------------------------------
def tallies(v: View):
    """recount of completed/succeeded/failed/cancelled per (batch, group incl. descendants) over committed jobs"""
    want = defaultdict(lambda: {'n_completed': 0, 'n_succeeded': 0, 'n_failed': 0, 'n_cancelled': 0, 'n_jobs': 0, 'n_live': 0})
    for j in v.jobs.values():
        if not v.committed(j):
            continue
        for a in v.ancestors.get((j['batch_id'], j['job_group_id']), ()):
            w = want[(j['batch_id'], a)]
            w['n_jobs'] += 1
            s = j['state']
            if s in TERMINAL:
                w['n_completed'] += 1
                if s == 'Success':
                    w['n_succeeded'] += 1
                elif s == 'Cancelled':
                    w['n_cancelled'] += 1
                else:
                    w['n_failed'] += 1
            else:
                w['n_live'] += 1
    return want


def c04_tallies(v: View):
    out = []
    want = tallies(v)
    T = v.eng.tables
    for r in T['job_groups_n_jobs_in_complete_states'].rows:
        k = (r['id'], r['job_group_id'])
        w = want.get(k, {'n_completed': 0, 'n_succeeded': 0, 'n_failed': 0, 'n_cancelled': 0})
        bad = {c: (r[c], w[c]) for c in ('n_completed', 'n_succeeded', 'n_failed', 'n_cancelled') if r[c] != w[c]}
        if bad:
            out.append(('tallies/mismatch', f'job_groups_n_jobs_in_complete_states{k}: (have, recount) = {bad}', {'key': list(k), 'diff': bad}))
    return out


def c06(v: View):
    out = []
    want = tallies(v)
    for (b, g), grp in v.groups.items():
        u = v.updates.get((b, grp['update_id'])) if grp['update_id'] is not None else None
        if g != 0 and not (u and u['committed']):
            continue  # group of an uncommitted update: not yet part of the batch
        w = want.get((b, g), {'n_jobs': 0, 'n_live': 0, 'n_completed': 0})
        all_done = w['n_live'] == 0
        is_complete = grp['state'] == 'complete'
        if all_done != is_complete:
            out.append(('group-state/mismatch', f'job group {(b, g)} state={grp["state"]} but live jobs={w["n_live"]} of {w["n_jobs"]}', {'group': [b, g], 'recount': w}))
        if grp['n_jobs'] != w['n_jobs']:
            out.append(('group-n_jobs/mismatch', f'job group {(b, g)} n_jobs={grp["n_jobs"]} recount={w["n_jobs"]}', {'group': [b, g]}))
        if (grp['time_completed'] is None) != (grp['state'] == 'running'):
            out.append(('group-time_completed/mismatch', f'job group {(b, g)} state={grp["state"]} time_completed={grp["time_completed"]}', {'group': [b, g]}))
    for b, bt in v.batches.items():
        w = want.get((b, 0), {'n_jobs': 0, 'n_live': 0})
        if (w['n_live'] == 0) != (bt['state'] == 'complete'):
            out.append(('batch-state/mismatch', f'batch {b} state={bt["state"]} but live jobs={w["n_live"]} of {w["n_jobs"]}', {'batch': b, 'recount': w}))
        if bt['n_jobs'] != w['n_jobs']:
            out.append(('batch-n_jobs/mismatch', f'batch {b} n_jobs={bt["n_jobs"]} recount={w["n_jobs"]}', {'batch': b}))
        if (bt['time_completed'] is None) != (bt['state'] == 'running'):
            out.append(('batch-time_completed/mismatch', f'batch {b} state={bt["state"]} time_completed={bt["time_completed"]}', {'batch': b}))
    return out


# ---- C05 ---------------------------------------------------------------------------------------------
def c05(v: View):
    out = []
    for k, j in v.jobs.items():
        b = j['batch_id']
        ps = [v.jobs.get((b, p)) for p in v.parents.get(k, ())]
        known = [p for p in ps if p is not None]
        if not v.committed(j):
            # gating holds for jobs of an uncommitted update as well: whatever readies them early (itself a recorded C41
            # finding) does so only once every parent has finished
            if j['state'] != 'Pending':
                live = [p['job_id'] for p in known if p['state'] not in TERMINAL]
                if live:
                    out.append(('ready-before-parents-done', f'job {k} (update not committed) is {j["state"]} while parents {live} are not terminal', {'job': list(k), 'parents': live, 'uncommitted': True}))
            continue
        if j['state'] != 'Pending':
            live = [p['job_id'] for p in known if p['state'] not in TERMINAL]
            if live:
                out.append(('ready-before-parents-done', f'job {k} is {j["state"]} while parents {live} are not terminal', {'job': list(k), 'parents': live}))
            failed = [p['job_id'] for p in known if p['state'] in TERMINAL and p['state'] != 'Success']
            if failed and not j['cancelled']:
                out.append(('failed-parent-not-cancelling', f'job {k} ({j["state"]}) has non-successful parents {failed} but cancelled=0', {'job': list(k), 'parents': failed}))
        if j['state'] not in TERMINAL:
            n = sum(1 for p in known if p['state'] not in TERMINAL)
            if len(known) == len(ps) and j['n_pending_parents'] != n:
                out.append(('n_pending_parents/mismatch', f'job {k} n_pending_parents={j["n_pending_parents"]} but {n} parents are not terminal', {'job': list(k)}))
        if j['state'] in ('Creating', 'Running') and j['cancelled'] and not j['always_run']:
            # may be legitimately observed only if it was marked cancelled *after* it started; checked by the edge monitor
            pass
    return out


# ---- C10 ---------------------------------------------------------------------------------------------
def c10(v: View):
    out = []
    T = v.eng.tables
    used = defaultdict(int)
    for a in T['attempts'].rows:
        if a['end_time'] is None and a['instance_name'] is not None:
            j = v.jobs.get((a['batch_id'], a['job_id']))
            if j is not None:
                used[a['instance_name']] += j['cores_mcpu']
    free = {r['name']: r['free_cores_mcpu'] for r in T['instances_free_cores_mcpu'].rows}
    for inst in T['instances'].rows:
        name = inst['name']
        if name not in free:
            continue
        if inst['state'] in ('pending', 'active'):
            want = inst['cores_mcpu'] - used.get(name, 0)
        else:
            want = inst['cores_mcpu']
        if free[name] != want:
            kind = 'too-low' if free[name] < want else 'too-high'
            key = f'free-cores/{inst["state"]}-{kind}'
            # recorded defect: an attempt that ended while its instance was still *pending* is never released
            # (add_attempt charges pending instances; mark_job_complete / unschedule_job release only active ones)
            ended_pending = 0
            for a in T['attempts'].rows:
                if a['instance_name'] == name and a['end_time'] is not None:
                    if inst['state'] == 'pending' or (inst['time_activated'] is not None and a['end_time'] <= inst['time_activated']):
                        j = v.jobs.get((a['batch_id'], a['job_id']))
                        ended_pending += j['cores_mcpu'] if j else 0
            if inst['state'] in ('pending', 'active') and ended_pending and free[name] == want - ended_pending:
                key = 'free-cores/attempt-ended-on-pending-instance-not-released'
            out.append((key, f'instance {name} ({inst["state"]}) free_cores_mcpu={free[name]} but cores - open attempts = {want}',
                        {'instance': name, 'state': inst['state'], 'free': free[name], 'want': want}))
    return out


# ---- C02 ---------------------------------------------------------------------------------------------
def billed(a):
    if a['rollup_time'] is None or a['start_time'] is None:
        return 0
    return max(a['rollup_time'] - a['start_time'], 0)


def c02(v: View):
    out = []
    T = v.eng.tables
    att = {(a['batch_id'], a['job_id'], a['attempt_id']): a for a in T['attempts'].rows}
    want_job = defaultdict(int)
    want_group = defaultdict(int)
    want_bp = defaultdict(int)
    for r in T['attempt_resources'].rows:
        a = att.get((r['batch_id'], r['job_id'], r['attempt_id']))
        if a is None:
            continue
        amount = r['quantity'] * billed(a)
        if amount == 0:
            continue
        rid = r['deduped_resource_id']
        want_job[(r['batch_id'], r['job_id'], rid)] += amount
        j = v.jobs.get((r['batch_id'], r['job_id']))
        bt = v.batches.get(r['batch_id'])
        if j is not None:
            for anc in v.ancestors.get((r['batch_id'], j['job_group_id']), ()):
                want_group[(r['batch_id'], anc, rid)] += amount
        if bt is not None:
            want_bp[(bt['billing_project'], bt['user'], rid)] += amount

    def compare(table, keycols, want, name):
        have = defaultdict(int)
        for r in T[table].rows:
            have[tuple(r[c] for c in keycols)] += r['usage']
        for k in set(have) | set(want):
            if have.get(k, 0) != want.get(k, 0):
                out.append((f'{name}/mismatch', f'{table}{k}: usage={have.get(k, 0)} but sum(quantity*billed)={want.get(k, 0)}', {'key': [str(x) for x in k], 'have': have.get(k, 0), 'want': want.get(k, 0)}))
    compare('aggregated_job_resources_v3', ('batch_id', 'job_id', 'resource_id'), want_job, 'per-job')
    compare('aggregated_job_group_resources_v3', ('batch_id', 'job_group_id', 'resource_id'), want_group, 'per-group')
    compare('aggregated_billing_project_user_resources_v3', ('billing_project', 'user', 'resource_id'), want_bp, 'per-billing-project')
    # by-date conservation: sum over dates = overall
    have_date = defaultdict(int)
    for r in T['aggregated_billing_project_user_resources_by_date_v3'].rows:
        have_date[(r['billing_project'], r['user'], r['resource_id'])] += r['usage']
    for k in set(have_date) | set(want_bp):
        if have_date.get(k, 0) != want_bp.get(k, 0):
            out.append(('by-date/total-mismatch', f'by_date{k}: sum over dates={have_date.get(k, 0)} but sum(quantity*billed)={want_bp.get(k, 0)}', {'key': [str(x) for x in k]}))
    return out
