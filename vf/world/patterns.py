"""Detectors of history patterns that are *recorded genuine defects* of the batch service (known
findings, DESIGN 6 / known_findings.json).  Monitors of other properties use them to attribute a
polluted witness to the originating mechanism instead of raising a second alarm for the same
defect (DESIGN 3.4).  A detector only ever *explains* a violation that another oracle found; it
never suppresses by itself, and explanations are scoped (same user/inst_coll, same batch) so that
an unrelated violation in the same history is still reported.
"""
from vf.world.oracles import LIVE, TERMINAL
from vf.world.run import Monitor


class Patterns(Monitor):
    def __init__(self):
        self.reset()

    def reset(self):
        self.tainted = {}  # (batch, job) -> first cause, jobs that changed while their update was uncommitted
        self.flags = {}  # name -> set(scope)
        self.commit_after_cancel = set()  # (batch, update)
        self.inserted = {}  # (batch, job) -> inserted state
        self.seen_committed = set()
        # (batch, group) -> True when the group's own update was still uncommitted at the moment its cancellation was recorded.
        # The unchanged service refuses such a cancel (cancel_job_group_in_db), so the recorded commit-after-cancel finding is
        # about groups that were committed when they were cancelled; anything else is a different history and is not explained.
        self.cancelled_while_uncommitted = {}

    def attach(self, runner):
        super().attach(runner)

    def flag(self, name, scope):
        self.flags.setdefault(name, set()).add(scope)

    def on_commit(self, v):
        for bg in v.cancelled:
            if bg not in self.cancelled_while_uncommitted:
                grp = v.groups.get(bg)
                upd = v.updates.get((bg[0], grp['update_id'])) if grp else None
                self.cancelled_while_uncommitted[bg] = bool(bg[1] != 0 and grp is not None and not (upd and upd['committed']))
        for k, j in v.jobs.items():
            b = j['batch_id']
            upd = v.updates.get((b, j['update_id']))
            committed = bool(upd and upd['committed'])
            if k not in self.inserted:
                self.inserted[k] = (j['state'], j['n_pending_parents'])
                if committed:
                    self.seen_committed.add(k)
                continue
            if committed:
                if k not in self.seen_committed:
                    self.seen_committed.add(k)
                    # first time seen committed: was an ancestor group (or the batch) cancelled before the commit?
                    # a parent that does not exist (bunch not inserted yet) or belongs to an update that is still
                    # uncommitted when this job's update commits: the API accepted a dependency that cannot gate it
                    for pid in v.parents.get(k, ()):
                        pj = v.jobs.get((b, pid))
                        if pj is None or not v.committed(pj) or pid >= j['job_id']:
                            self.flag('dangling-parent-at-commit', ('job', k))
                            self.flag('dangling-parent-at-commit', ('batch', b))
                            self.flag('dangling-parent-at-commit', ('uic', v.batches[b]['user'], j['inst_coll']))
                    # (the staged ready counts that the commit adds blindly are non-zero only for a batch's first update: jobs of later
                    # updates are inserted Pending and are accounted by the trigger, which does look at cancellation)
                    via_route = (b, j['update_id']) in getattr(getattr(self.r, 'fz', None), 'commits_via_route', ())
                    root_cancelled = (b, 0) in v.cancelled
                    # (the commit route itself refuses to commit an update of a batch whose root group is cancelled: a commit that
                    #  went through the route on such a batch is not the recorded history and is not explained)
                    if j['update_id'] == 1 and v.group_cancelled(b, j['job_group_id']) and not (via_route and root_cancelled) and not any(
                        self.cancelled_while_uncommitted.get((b, a)) for a in v.ancestors.get((b, j['job_group_id']), ()) if (b, a) in v.cancelled
                    ):
                        self.commit_after_cancel.add((b, j['update_id']))
                        user = v.batches[b]['user']
                        self.flag('commit-after-cancel', ('uic', user, j['inst_coll']))
                        self.flag('commit-after-cancel', ('batch', b))
                continue
            ins_state, ins_npp = self.inserted[k]
            if k in self.tainted:
                continue
            cause = None
            if j['state'] != ins_state:
                cause = f'state {ins_state}->{j["state"]}'
            elif j['n_pending_parents'] != ins_npp:
                cause = f'n_pending_parents {ins_npp}->{j["n_pending_parents"]}'
            elif j['attempt_id'] is not None:
                cause = 'attempt assigned'
            elif j['cancelled']:
                cause = 'cancelled flag set'
            if cause:
                self.tainted[k] = (cause, self.r.cur_op)
                user = v.batches[b]['user']
                self.flag('uncommitted-job-activated', ('uic', user, j['inst_coll']))
                self.flag('uncommitted-job-activated', ('batch', b))
                self.flag('uncommitted-job-activated', ('job', k))

    def explains(self, scope):
        """names of recorded-defect patterns whose scope covers `scope`"""
        return sorted(n for n, scopes in self.flags.items() if scope in scopes)
