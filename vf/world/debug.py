"""debug helper: replay one case of a history-based monitor and dump tables at the first violation.
usage: python -m vf.world.debug <replay.json> [table ...]"""
import json
import random
import sys

import vf.bootstrap  # noqa: F401
from vf.harness import Ctx, _h64
from vf.world.run import HistoryRunner


def main():
    rp = json.load(open(sys.argv[1]))
    tables = sys.argv[2:]
    import importlib

    mod = importlib.import_module('vf.monitors.' + rp['property'].lower())
    ctx = Ctx(rp['property'], rp['tier'], rp['seed'], rp['shard'], 1, replay=rp)
    dumped = []
    orig = ctx.violation

    def violation(key, what, witness=None):
        if not dumped:
            dumped.append(1)
            print('FIRST VIOLATION', key, what, '| during op:', (witness or {}).get('current_op_name'))
            from vf.world.world import _ENGINE_CACHE as e
            for t in tables:
                print('==', t)
                for r in e.tables[t].rows:
                    print('   ', {k: v for k, v in r.items() if k not in ('spec', 'userdata', 'status')})
            for h in (witness or {}).get('history_tail', []):
                print('  ', {k: (v if k != 'result' else {a: b for a, b in v.items() if a != 'view'}) for k, v in h.items()})
        orig(key, what, witness)
    ctx.violation = violation
    mod.run(ctx)


if __name__ == '__main__':
    main()
