"""History fuzzer over the batch world: every operation goes through the repository's real entry
points (front_end functions, driver/job.py, driver/main.py handlers, PoolScheduler, Canceller, JPIM).

Message realism rule (DESIGN 2.4): worker reports / unschedule / deactivate refer only to attempts
that were really handed out by the service earlier in the same history (possibly late, duplicated,
stale); client requests may be arbitrary schema-valid input.
"""
import asyncio
import copy
import json
import random
import traceback

from aiohttp import web

from vf.minimysql.values import Unsupported

STATES_DONE = ('Success', 'Failed', 'Error', 'Cancelled')


class FakeRequest(dict):
    def __init__(self, app, body=None, match_info=None, query=None):
        super().__init__()
        self.app = app
        self._body = body
        self.match_info = match_info or {}
        self.query = query or {}
        self['batch_telemetry'] = {}
        self.headers = {}
        self.method = 'POST'

    async def read(self):
        return json.dumps(self._body).encode()

    async def json(self):
        return copy.deepcopy(self._body)


class FakeResourceManager:
    """cloud side of instance creation: never fails, returns the resources the VM would bill"""

    def __init__(self, world):
        self.world = world
        self.created = []
        self.deleted = []

    def instance_config(self, machine_type, preemptible, **kw):
        from vf.world.world import FakeInstanceConfig

        return FakeInstanceConfig(machine_type, preemptible)

    async def create_vm(self, machine_name, instance_config, **kw):
        self.created.append(machine_name)
        return [{'name': 'compute/n1-preemptible/1', 'quantity': instance_config.cores * 1000}, {'name': 'service-fee/1', 'quantity': 1024}]

    async def delete_vm(self, instance):
        from batch.driver.resource_manager import VMDoesNotExist

        self.deleted.append(instance.name)
        raise VMDoesNotExist()

    async def get_vm_state(self, instance):
        from batch.driver.resource_manager import VMDoesNotExist

        raise VMDoesNotExist()

    def machine_type(self, cores, worker_type, local_ssd):
        return f'n1-{worker_type}-{cores}'


class Fuzzer:
    def __init__(self, world, rng: random.Random, cfg=None):
        self.w = world
        self.rng = rng
        self.cfg = dict(
            max_batches=3, max_updates=3, max_groups_per_update=3, max_jobs_per_update=6, max_instances=3,
            job_private=True, users=['alice', 'bob'], weights={}, always_run_p=0.2, parent_p=0.5,
            cancel_after_n_failures_p=0.15, adversarial_parents=False, discipline=False, fault_schedule_db_p=0.05, worker_reject_p=0.05,
        )
        self.cfg.update(cfg or {})
        self.plans = []  # submission plans
        self.batches = {}  # bid -> {'user', 'token', 'groups': set(ids), 'n_jobs_reserved', 'cancelled_groups': set}
        self.attempts = {}  # (bid, jid, attempt_id) -> dict
        self.sent_requests = []
        self.history = []
        self.token_n = 0
        self.fail_next_schedule_db = False
        self.early_job_started = 0
        self.driver_restarts = 0
        self.http_fe = None
        self.commits_via_route = set()
        self.route_commits = 0
        self.worker_posts = []
        self.intended_parents = {}
        self.legacy_parent_keys = 0
        self.early_job_complete = 0
        self.interleavings = 0
        self.resource_manager = FakeResourceManager(world)
        for p in world.pools.values():
            p.resource_manager = self.resource_manager
        world.jpim.resource_manager = self.resource_manager
        world.http_handler = self.http
        self.unsupported = None
        import aiomysql

        self._aiomysql = aiomysql
        aiomysql.HOOKS['fault'] = self._db_fault

    # ---- fakes that belong to the workload -------------------------------------------------------
    def _db_fault(self, site, conn, sql):
        if self.fail_next_schedule_db and sql and 'CALL schedule_job' in sql:
            self.fail_next_schedule_db = False
            import pymysql

            return pymysql.err.OperationalError(1317, 'Query execution was interrupted (injected)')
        return None

    def http(self, method, url, kw):
        async def run():
            from vf.world.world import FakeResponse

            if url.endswith('/api/v1alpha/batches/jobs/create'):
                body = kw.get('json') or {}
                ip = url.split('//')[1].split(':')[0]
                inst = next((i for i in self.w.instances.values() if i.ip_address == ip), None)
                # what the driver hands to a worker, judged at the moment of the hand-over (before the SQL gate): the job's
                # cancellation marks as committed right now
                try:
                    from vf.world.oracles import View as _View

                    _v = _View(self.w.engine)
                    _j = _v.jobs.get((body['batch_id'], body['job_id']))
                    if _j is not None:
                        self.worker_posts.append({'job': [body['batch_id'], body['job_id']], 'attempt_id': body['job_spec']['attempt_id'], 'always_run': bool(_j['always_run']),
                                                  'marked_cancelled': bool(_v.marked_cancelled(_j)), 'cancelled_flag': bool(_j['cancelled']), 'group_state': (_v.groups.get((body['batch_id'], _j['job_group_id'])) or {}).get('state'), 'committed': bool(_v.committed(_j)), 'state': _j['state'], 'during': self.current})
                except Exception:  # observation only
                    pass
                if self.rng.random() < self.cfg['worker_reject_p']:
                    import aiohttp

                    raise aiohttp.ClientResponseError(None, (), status=self.rng.choice([403, 503]), message='injected worker refusal')
                key = (body['batch_id'], body['job_id'], body['job_spec']['attempt_id'])
                self.attempts.setdefault(key, {
                    'batch_id': body['batch_id'], 'job_id': body['job_id'], 'attempt_id': body['job_spec']['attempt_id'],
                    'job_group_id': body['job_spec'].get('job_group_id', 0), 'instance_name': inst.name if inst else None,
                    'worker_accepted': True,
                })
                if self.rng.random() < self.cfg['fault_schedule_db_p']:
                    self.fail_next_schedule_db = True  # worker accepted, the driver's CALL schedule_job fails
                elif inst is not None and inst.state == 'active' and self.rng.random() < self.cfg.get('early_job_started_p', 0.08):
                    # the worker starts the job at once and its job_started report overtakes the driver's own CALL schedule_job
                    t = self.w.now_ms()
                    st = {'status': {'batch_id': key[0], 'job_id': key[1], 'attempt_id': key[2], 'start_time': t, 'resources': []}}
                    try:
                        await self.w.dm.job_started(self._worker_request(inst, st))
                        self.attempts[key]['started'] = True
                        self.early_job_started += 1
                    except Exception:  # the report is the worker's business; the POST itself succeeded
                        pass
                    if self.rng.random() < self.cfg.get('early_job_complete_p', 0.35):
                        # a very short job: its completion report, too, overtakes the driver's CALL schedule_job
                        state = self.rng.choice(['succeeded', 'succeeded', 'failed', 'error'])
                        stc = {'batch_id': key[0], 'job_id': key[1], 'attempt_id': key[2], 'job_group_id': body['job_spec'].get('job_group_id', 0), 'state': state,
                               'start_time': t, 'end_time': t + 1, 'status': {'state': state}, 'resources': []}
                        try:
                            await self.w.dm.job_complete(self._worker_request(inst, {'status': stc, 'marked_job_started': True}))
                            self.attempts[key]['completed'] = self.attempts[key].get('completed', 0) + 1
                            self.early_job_complete += 1
                        except Exception:
                            pass
            return FakeResponse()
        return run()

    def sync_attempts_from_db(self):
        for r in self.w.engine.tables['attempts'].rows:
            key = (r['batch_id'], r['job_id'], r['attempt_id'])
            if key not in self.attempts:
                j = self.w.engine.tables['jobs'].pk_get(r['batch_id'], r['job_id'])
                self.attempts[key] = {
                    'batch_id': r['batch_id'], 'job_id': r['job_id'], 'attempt_id': r['attempt_id'],
                    'job_group_id': j['job_group_id'] if j else 0, 'instance_name': r['instance_name'], 'worker_accepted': False,
                }

    # ---- generation of submissions -----------------------------------------------------------------
    def new_token(self):
        self.token_n += 1
        return f'tok{self.token_n}'

    def gen_update_plan(self, bid, uid, start_job_id, start_group_id, n_jobs, n_groups):
        rng = self.rng
        b = self.batches[bid]
        existing_groups = sorted(b['groups'])
        groups = []
        for k in range(1, n_groups + 1):
            spec = {'job_group_id': k}
            if k > 1 and rng.random() < 0.5:
                spec['in_update_parent_id'] = rng.randint(1, k - 1)
            else:
                spec['absolute_parent_id'] = rng.choice(existing_groups)
            if rng.random() < self.cfg['cancel_after_n_failures_p']:
                spec['cancel_after_n_failures'] = rng.choice([1, 1, 2])
            if rng.random() < 0.2:
                spec['attributes'] = {'name': f'g{k}'}
            groups.append(spec)
        jobs = []
        prior_jobs = list(range(1, start_job_id))
        for i in range(1, n_jobs + 1):
            spec = {
                'job_id': i,
                'process': {'type': 'docker', 'command': ['true'], 'image': 'ubuntu:22.04'},
                'resources': {'storage': '1Gi'},
                'attributes': {'uid': f'b{bid}u{uid}j{i}'},
            }
            if self.cfg['job_private'] and rng.random() < 0.15:
                spec['resources']['machine_type'] = 'n1-standard-1'
                spec['resources']['preemptible'] = True
            else:
                spec['resources']['cpu'] = rng.choice(['0.25', '0.5', '1', '1', '2'])
                spec['resources']['memory'] = 'standard'
            if rng.random() < self.cfg['always_run_p']:
                spec['always_run'] = True
            ps = []
            if i > 1 and rng.random() < self.cfg['parent_p']:
                ps = sorted(rng.sample(range(1, i), rng.randint(1, min(3, i - 1))))
            if ps:
                spec['in_update_parent_ids'] = ps
            if prior_jobs and not self.cfg['discipline'] and rng.random() < self.cfg['parent_p'] * 0.8:
                spec['absolute_parent_ids'] = sorted(rng.sample(prior_jobs, rng.randint(1, min(2, len(prior_jobs)))))
            # the submission's dependency edges as the client means them (absolute job ids): the ledger the oracles compare
            # the recorded job_parents rows with
            self.intended_parents[(bid, start_job_id + i - 1)] = {start_job_id + q - 1 for q in ps} | set(spec.get('absolute_parent_ids', ()))
            if 'absolute_parent_ids' in spec and rng.random() < self.cfg.get('legacy_parent_key_p', 0.35):
                spec['parent_ids'] = spec.pop('absolute_parent_ids')  # pre-update clients' spelling (absolute ids)
                self.legacy_parent_keys += 1
            if n_groups and rng.random() < 0.5:
                spec['in_update_job_group_id'] = rng.randint(1, n_groups)
            elif rng.random() < 0.5:
                spec['absolute_job_group_id'] = rng.choice(existing_groups)
            if rng.random() < 0.1:
                spec['regions'] = rng.choice([['us-central1'], ['us-central1', 'us-east1']])
            jobs.append(spec)

        def bunches(n):
            out = []
            i = 0
            while i < n:
                k = rng.randint(1, max(1, n - i))
                out.append((i, i + k))
                i += k
            return out
        plan = {
            'batch': bid, 'update': uid, 'user': b['user'], 'start_job_id': start_job_id, 'start_group_id': start_group_id,
            'groups': groups, 'jobs': jobs, 'group_bunches': bunches(n_groups), 'job_bunches': bunches(n_jobs),
            'sent_group_bunches': [], 'sent_job_bunches': [], 'committed': False, 'n_jobs': n_jobs, 'n_groups': n_groups,
        }
        self.plans.append(plan)
        return plan

    # ---- client operations ------------------------------------------------------------------------
    async def op_create_batch(self):
        if len(self.batches) >= self.cfg['max_batches']:
            return None
        from vf.world.world import userdata

        rng = self.rng
        user = rng.choice(self.cfg['users'])
        bp = 'bp-a'
        n_jobs = rng.choice([0, 1, 2, 3, self.cfg['max_jobs_per_update']])
        n_groups = rng.choice([0, 0, 1, 2, self.cfg['max_groups_per_update']])
        token = self.new_token()
        spec = {'billing_project': bp, 'token': token, 'n_jobs': n_jobs, 'n_job_groups': n_groups}
        if rng.random() < 0.15:
            spec['cancel_after_n_failures'] = 1
        bid = await self.w.fe._create_batch(dict(spec), userdata(user), self.w.db)
        self.batches.setdefault(bid, {'user': user, 'token': token, 'groups': {0}, 'cancelled': set(), 'deleted': False})
        self.sent_requests.append(('create_batch', spec, user))
        res = {'batch_id': bid}
        if n_jobs or n_groups:
            uid, sg, sj = await self.w.fe._create_batch_update(bid, token, n_jobs, n_groups, user, self.w.db)
            self.gen_update_plan(bid, uid, sj, sg, n_jobs, n_groups)
            self.sent_requests.append(('create_update', bid, token, n_jobs, n_groups, user))
            res['update'] = uid
        return res

    async def op_create_update(self):
        cands = [bid for bid, b in self.batches.items() if sum(1 for p in self.plans if p['batch'] == bid) < self.cfg['max_updates']]
        if self.cfg['discipline']:
            cands = [bid for bid in cands if all(p['committed'] for p in self.plans if p['batch'] == bid) and 0 not in self.batches[bid]['cancelled']]
        if not cands:
            return None
        rng = self.rng
        bid = rng.choice(cands)
        b = self.batches[bid]
        n_jobs = rng.choice([0, 1, 2, 4, self.cfg['max_jobs_per_update']])
        n_groups = rng.choice([0, 0, 1, 2])
        if n_jobs == 0 and n_groups == 0:
            n_jobs = 1
        token = self.new_token()
        uid, sg, sj = await self.w.fe._create_batch_update(bid, token, n_jobs, n_groups, b['user'], self.w.db)
        self.gen_update_plan(bid, uid, sj, sg, n_jobs, n_groups)
        self.sent_requests.append(('create_update', bid, token, n_jobs, n_groups, b['user']))
        return {'batch_id': bid, 'update': uid, 'start_job_id': sj, 'start_group_id': sg}

    def _open_plans(self):
        return [p for p in self.plans if not p['committed']]

    async def op_submit_group_bunch(self, resend=False):
        cands = [p for p in self._open_plans() if p['group_bunches']]
        if not cands:
            return None
        rng = self.rng
        p = rng.choice(cands)
        pending = [b for b in p['group_bunches'] if b not in p['sent_group_bunches']]
        if resend or not pending:
            if not p['sent_group_bunches']:
                return None
            lo, hi = rng.choice(p['sent_group_bunches'])
        else:
            lo, hi = pending[0] if rng.random() < 0.85 else rng.choice(pending)
        from batch.front_end.validate import validate_job_groups

        specs = copy.deepcopy(p['groups'][lo:hi])
        validate_job_groups(specs)
        await self.w.fe._create_job_groups(self.w.db, p['batch'], p['update'], p['user'], specs)
        if (lo, hi) not in p['sent_group_bunches']:
            p['sent_group_bunches'].append((lo, hi))
        for s in p['groups'][lo:hi]:
            self.batches[p['batch']]['groups'].add(p['start_group_id'] + s['job_group_id'] - 1)
        return {'batch_id': p['batch'], 'update': p['update'], 'groups': [lo, hi]}

    async def op_submit_job_bunch(self, resend=False):
        cands = [p for p in self._open_plans() if p['job_bunches']]
        if not cands:
            return None
        rng = self.rng
        p = rng.choice(cands)
        pending = [b for b in p['job_bunches'] if b not in p['sent_job_bunches']]
        if resend or not pending:
            if not p['sent_job_bunches']:
                return None
            lo, hi = rng.choice(p['sent_job_bunches'])
        else:
            lo, hi = pending[0] if rng.random() < 0.7 else rng.choice(pending)
        from batch.front_end.validate import validate_and_clean_jobs
        from vf.world.world import userdata

        specs = copy.deepcopy(p['jobs'][lo:hi])
        validate_and_clean_jobs(specs)
        await self.w.fe._create_jobs(userdata(p['user']), specs, p['batch'], p['update'], self.w.fe_app)
        if (lo, hi) not in p['sent_job_bunches']:
            p['sent_job_bunches'].append((lo, hi))
        return {'batch_id': p['batch'], 'update': p['update'], 'jobs': [lo, hi]}

    async def op_commit(self, any_plan=False):
        cands = self._open_plans() if not any_plan else self.plans
        if not cands:
            return None
        rng = self.rng
        complete = [p for p in cands if len(p['sent_job_bunches']) == len(p['job_bunches']) and len(p['sent_group_bunches']) == len(p['group_bunches'])]
        p = rng.choice(complete) if complete and rng.random() < 0.8 else rng.choice(cands)
        if rng.random() < self.cfg.get('commit_via_route_p', 0.5):
            # through the real route (auth, ownership filter and the route's own refusal of a cancelled batch), as an ordinary
            # client commits; the direct call below stands for the fast-path handlers, which reach _commit_update without that guard
            from aiohttp import web
            from vf.world.http import FrontEnd
            from vf.world.world import userdata

            if self.http_fe is None:
                self.http_fe = FrontEnd(self.w)
                for u in self.cfg['users']:
                    self.http_fe.auth_service.add('tok-' + u, userdata(u))
            already = (p['batch'], p['update']) in self.commits_via_route
            self.commits_via_route.add((p['batch'], p['update']))  # (known while the commit's own transaction is being judged)
            try:
                resp = await self.http_fe.request('PATCH', f"/api/v1alpha/batches/{p['batch']}/updates/{p['update']}/commit", token='tok-' + p['user'])
            except BaseException:
                if not already:
                    self.commits_via_route.discard((p['batch'], p['update']))
                raise
            if resp.status >= 400 and not already:
                self.commits_via_route.discard((p['batch'], p['update']))
            if resp.status >= 400:
                exc = {400: web.HTTPBadRequest, 404: web.HTTPNotFound, 401: web.HTTPUnauthorized, 403: web.HTTPForbidden}.get(resp.status)
                if exc is None:
                    raise RuntimeError(f'commit route answered {resp.status}: {(resp.text_ or "")[:120]}')
                raise exc(reason=(resp.text_ or '')[:200])
            self.route_commits += 1
            p['committed'] = True
            return {'batch_id': p['batch'], 'update': p['update'], 'via': 'route'}
        await self.w.fe._commit_update(self.w.fe_app, p['batch'], p['update'], p['user'], self.w.db)
        p['committed'] = True
        return {'batch_id': p['batch'], 'update': p['update']}

    async def op_cancel_batch(self):
        if not self.batches:
            return None
        cands = sorted(self.batches)
        if self.cfg['discipline']:
            cands = [b for b in cands if all(p['committed'] for p in self.plans if p['batch'] == b)]
            if not cands:
                return None
        bid = self.rng.choice(cands)
        await self.w.fe._cancel_job_group(self.w.fe_app, bid, 0)
        self.batches[bid]['cancelled'].add(0)
        return {'batch_id': bid}

    async def op_cancel_job_group(self):
        cands = [(bid, g) for bid, b in self.batches.items() for g in b['groups']]
        if self.cfg['discipline']:
            cands = [(b, g) for b, g in cands if all(p['committed'] for p in self.plans if p['batch'] == b)]
        if not cands:
            return None
        bid, g = self.rng.choice(sorted(cands))
        await self.w.fe._cancel_job_group(self.w.fe_app, bid, g)
        self.batches[bid]['cancelled'].add(g)
        return {'batch_id': bid, 'job_group_id': g}

    async def op_delete_batch(self):
        cands = [bid for bid, b in self.batches.items() if not b['deleted']]
        if self.cfg['discipline']:
            cands = [b for b in cands if all(p['committed'] for p in self.plans if p['batch'] == b)]
        if not cands or self.rng.random() < 0.5:
            return None
        bid = self.rng.choice(cands)
        await self.w.fe._delete_batch(self.w.fe_app, bid)
        self.batches[bid]['deleted'] = True
        return {'batch_id': bid}

    async def op_get_batch(self):
        if not self.batches:
            return None
        bid = self.rng.choice(sorted(self.batches))
        r = await self.w.fe._get_batch(self.w.fe_app, bid)
        return {'batch_id': bid, 'view': r}

    async def op_get_job_group(self):
        cands = [(bid, g) for bid, b in self.batches.items() for g in b['groups']]
        if not cands:
            return None
        bid, g = self.rng.choice(sorted(cands))
        r = await self.w.fe._get_job_group(self.w.fe_app, bid, g)
        return {'batch_id': bid, 'job_group_id': g, 'view': r}

    # ---- driver / cloud operations -----------------------------------------------------------------
    def _live_instances(self):
        return [i for i in self.w.instances.values() if i.state in ('pending', 'active')]

    async def op_create_instance(self):
        if len(self._live_instances()) >= self.cfg['max_instances']:
            return None
        pool = self.rng.choice(sorted(self.w.pools))
        cores = self.rng.choice([2, 4, 16])
        inst = await self.w.create_instance(pool, cores=cores, activate=self.rng.random() < 0.8)
        return {'instance': inst.name, 'state': inst.state, 'cores': cores}

    async def op_activate_instance(self):
        cands = [i for i in self.w.instances.values() if i.state == 'pending']
        for i in self.w.jpim.name_instance.values():
            self.w.instances.setdefault(i.name, i)
        cands = [i for i in self.w.instances.values() if i.state == 'pending']
        if not cands:
            return None
        inst = self.rng.choice(sorted(cands, key=lambda i: i.name))
        # live VMs never share an address (the fake worker endpoint resolves the instance by it): draw without replacement
        self.rng.randint(1, 200)  # keeps the random stream of earlier replays aligned
        used = {i.ip_address for i in self.w.instances.values()}
        n = len(self.w.instances) + 1
        while '10.0.%d.%d' % (1 + n // 250, 1 + n % 250) in used:
            n += 1
        await inst.activate('10.0.%d.%d' % (1 + n // 250, 1 + n % 250), self.w.now_ms())
        return {'instance': inst.name}

    async def op_deactivate_instance(self):
        cands = sorted(self._live_instances(), key=lambda i: i.name)
        if not cands:
            return None
        inst = self.rng.choice(cands)
        reason = self.rng.choice(['preempted', 'terminated', 'activation_timeout' if inst.state == 'pending' else 'deactivated', 'not_responding'])
        if inst.state == 'active' and self.rng.random() < 0.5:
            await self.w.dm.deactivate_instance(self._worker_request(inst, {}))  # the worker says goodbye
        else:
            await inst.deactivate(reason, self.w.now_ms())
        return {'instance': inst.name, 'reason': reason}

    async def op_remove_instance(self):
        cands = sorted([i for i in self.w.instances.values() if i.state == 'inactive' and i.name in i.inst_coll.name_instance], key=lambda i: i.name)
        if not cands:
            return None
        inst = self.rng.choice(cands)
        if self.rng.random() < 0.5:
            await inst.mark_deleted('deleted', self.w.now_ms())
        await inst.inst_coll.remove_instance(inst, 'removed', self.w.now_ms())
        return {'instance': inst.name}

    async def _drain(self):
        # let fire-and-forget work of AsyncWorkerPool / WaitableSharedPool finish
        for _ in range(3):
            await asyncio.sleep(0)

    async def op_schedule_loop(self):
        pool = self.w.pools[self.rng.choice(sorted(self.w.pools))]
        r = await pool.scheduler.schedule_loop_body()
        await self._drain()
        self.sync_attempts_from_db()
        return {'pool': pool.name, 'should_wait': r}

    async def op_jpim_create(self):
        if not self.cfg['job_private']:
            return None
        jp = self.w.jpim
        # the loop body ends with a sleep of autoscaler_loop_period_secs (virtual time)
        r = await jp.create_instances_loop_body()
        await self._drain()
        for i in jp.name_instance.values():
            self.w.instances.setdefault(i.name, i)
        self.sync_attempts_from_db()
        return {'should_wait': r}

    async def op_jpim_schedule(self):
        if not self.cfg['job_private']:
            return None
        r = await self.w.jpim.schedule_jobs_loop_body()
        await self._drain()
        self.sync_attempts_from_db()
        return {'should_wait': r}

    async def op_cancel_ready(self):
        return {'should_wait': await self.w.canceller.cancel_cancelled_ready_jobs_loop_body()}

    async def op_cancel_creating(self):
        return {'should_wait': await self.w.canceller.cancel_cancelled_creating_jobs_loop_body()}

    async def op_cancel_running(self):
        return {'should_wait': await self.w.canceller.cancel_cancelled_running_jobs_loop_body()}

    async def op_cancel_orphaned(self):
        await self.w.canceller.cancel_orphaned_attempts_loop_body()
        return {}

    async def op_cancel_fast_failing(self):
        await self.w.dm.cancel_fast_failing_job_groups(self.w.dr_app)
        return {}

    async def op_cleanup_staging(self):
        await self.w.dm.delete_committed_job_groups_inst_coll_staging_records(self.w.db)
        return {}

    async def op_cleanup_cancellable(self):
        await self.w.dm.delete_prev_cancelled_job_group_cancellable_resources_records(self.w.db)
        return {}

    async def op_compact(self):
        await self.w.dm.compact_agg_billing_project_users_table(self.w.dr_app, self.w.db)
        return {}

    async def op_compact_by_date(self):
        await self.w.dm.compact_agg_billing_project_users_by_date_table(self.w.dr_app, self.w.db)
        return {}

    async def op_interleaved_background(self):
        """a driver background pass (compaction, clean-up, canceller sweeps) during which another request is served in
        between: at the k-th time the pass asks the pool for a connection (i.e. between its listing query and one of its
        per-row transactions, never inside an open transaction) one worker / client operation runs to completion"""
        import aiomysql

        if aiomysql.HOOKS.get('delay') is not None:
            return None
        back = self.rng.choice(['compact', 'compact', 'compact_by_date', 'cleanup_staging', 'cleanup_cancellable', 'cancel_ready', 'cancel_running', 'cancel_orphaned'])
        fore = self.rng.choice(['billing_update', 'billing_update', 'job_complete', 'job_complete', 'job_started', 'add_attempt_resources', 'commit', 'cancel_job_group', 'unschedule'])
        k = self.rng.randint(2, 6)
        state = {'n': 0, 'ran': None}

        async def delay(site):
            if site != 'connect' or state['ran'] is not None:
                return
            state['n'] += 1
            if state['n'] == k:
                state['ran'] = 'started'
                aiomysql.HOOKS.pop('delay', None)
                self.current = fore  # commits made by the interleaved request are attributed to it, not to the background pass
                try:
                    res = await getattr(self, 'op_' + fore)()
                    state['ran'] = 'ok' if res is not None else 'not-applicable'
                except Exception as e:  # the interleaved request's own failure is its caller's business
                    state['ran'] = 'raised:' + type(e).__name__
                finally:
                    self.current = back
        aiomysql.HOOKS['delay'] = delay
        self.current = back
        try:
            await getattr(self, 'op_' + back)()
        finally:
            self.current = 'interleaved_background'
            if aiomysql.HOOKS.get('delay') is delay:
                aiomysql.HOOKS.pop('delay', None)
        if state['ran'] in (None, 'not-applicable'):
            return {'background': back, 'interleaved': None}
        self.interleavings += 1
        return {'background': back, 'interleaved': fore, 'at_connect': k, 'inner': state['ran']}

    async def op_check_resource_aggregation(self):
        await self.w.dm.check_resource_aggregation(self.w.db)
        return {}

    # ---- worker messages -----------------------------------------------------------------------------
    def _pick_attempt(self, prefer_open=True):
        self.sync_attempts_from_db()
        if not self.attempts:
            return None
        keys = sorted(self.attempts)
        if prefer_open and self.rng.random() < 0.7:
            open_keys = []
            at = self.w.engine.tables['attempts']
            for k in keys:
                r = at.pk_get(*k)
                if r is None or r['end_time'] is None:
                    open_keys.append(k)
            if open_keys:
                keys = open_keys
        return self.attempts[self.rng.choice(keys)]

    def _instance_of(self, a):
        name = a.get('instance_name')
        return self.w.instances.get(name) if name else None

    def _worker_request(self, inst, body):
        """a request as the worker on `inst` sends it: identity headers carry the instance's real token, so the
        repository's own @active_instances_only decides whether the message is admissible"""
        row = self.w.engine.tables['instances'].pk_get(inst.name)
        req = FakeRequest(self.w.dr_app, body)
        req.headers = {'X-Hail-Instance-Name': inst.name, 'X-Hail-Instance-Token': row['token'] if row else 'none'}
        return req

    def _resources(self, a):
        j = self.w.engine.tables['jobs'].pk_get(a['batch_id'], a['job_id'])
        cores = j['cores_mcpu'] if j else 1000
        res = [{'name': 'compute/n1-preemptible/1', 'quantity': cores}, {'name': 'memory/n1-preemptible/1', 'quantity': cores * 4},
               {'name': 'compute/n1-preemptible/2', 'quantity': 7}]
        res = res[: self.rng.randint(1, 3)]
        if self.rng.random() < 0.3:
            # a later registration of the same attempt may name other quantities (the driver's estimate at `creating` vs the
            # worker's own report, extra storage summed into one resource name): the first registration is the one that counts
            for r in res:
                r['quantity'] = r['quantity'] * self.rng.choice([1, 2, 3]) + self.rng.choice([0, 0, 1])
        return res

    async def op_job_started(self):
        a = self._pick_attempt()
        inst = self._instance_of(a) if a else None
        if a is None or inst is None:
            return None
        t = self.w.now_ms() - self.rng.choice([0, 0, 5, 1000, 100000])
        body = {'status': {'batch_id': a['batch_id'], 'job_id': a['job_id'], 'attempt_id': a['attempt_id'], 'start_time': t, 'resources': self._resources(a)}}
        await self.w.dm.job_started(self._worker_request(inst, body))
        a['started'] = True
        return {'attempt': [a['batch_id'], a['job_id'], a['attempt_id']], 'start_time': t}

    async def op_job_complete(self):
        a = self._pick_attempt()
        inst = self._instance_of(a) if a else None
        if a is None or inst is None:
            return None
        now = self.w.now_ms()
        start = now - self.rng.choice([0, 10, 500, 60000])
        end = start + self.rng.choice([0, 1, 100, 30000])
        if self.rng.random() < 0.05:
            end = start - 5  # hostile: end before start
        state = self.rng.choice(['succeeded', 'succeeded', 'succeeded', 'failed', 'error'])
        marked = bool(a.get('started')) and self.rng.random() < 0.7
        status = {'batch_id': a['batch_id'], 'job_id': a['job_id'], 'attempt_id': a['attempt_id'], 'job_group_id': a.get('job_group_id', 0),
                  'state': state, 'start_time': start, 'end_time': end, 'status': {'state': state}, 'resources': self._resources(a)}
        await self.w.dm.job_complete(self._worker_request(inst, {'status': status, 'marked_job_started': marked}))
        a['completed'] = a.get('completed', 0) + 1
        return {'attempt': [a['batch_id'], a['job_id'], a['attempt_id']], 'state': state, 'start': start, 'end': end, 'marked_job_started': marked}

    async def op_billing_update(self):
        insts = sorted([i for i in self.w.instances.values() if i.state == 'active'], key=lambda i: i.name)
        if not insts:
            return None
        inst = self.rng.choice(insts)
        self.sync_attempts_from_db()
        mine = [a for a in self.attempts.values() if a.get('instance_name') == inst.name]
        if not mine:
            return None
        sel = self.rng.sample(mine, self.rng.randint(1, min(3, len(mine))))
        t = self.w.now_ms() - self.rng.choice([0, 0, 50, 5000])
        body = {'timestamp': t, 'attempts': [{'batch_id': a['batch_id'], 'job_id': a['job_id'], 'attempt_id': a['attempt_id']} for a in sel]}
        await self.w.dm.billing_update(self._worker_request(inst, body))
        return {'instance': inst.name, 'timestamp': t, 'n': len(sel)}

    async def op_unschedule(self):
        # the canceller builds these records from the attempts table: only attempts the database knows
        a = self._pick_attempt()
        if a is None or a.get('instance_name') is None:
            return None
        if self.w.engine.tables['attempts'].pk_get(a['batch_id'], a['job_id'], a['attempt_id']) is None:
            return None
        from batch.driver.job import unschedule_job

        rec = {'batch_id': a['batch_id'], 'job_id': a['job_id'], 'attempt_id': a['attempt_id'], 'instance_name': a['instance_name']}
        await unschedule_job(self.w.dr_app, rec)
        return {'attempt': [a['batch_id'], a['job_id'], a['attempt_id']]}

    async def op_add_attempt_resources(self):
        a = self._pick_attempt(prefer_open=False)
        if a is None:
            return None
        from batch.driver.job import add_attempt_resources

        await add_attempt_resources(self.w.dr_app, self.w.db, a['batch_id'], a['job_id'], a['attempt_id'], self._resources(a))
        return {'attempt': [a['batch_id'], a['job_id'], a['attempt_id']]}

    async def op_restart_driver(self):
        await self._drain()
        await self.w.restart_driver()
        self.driver_restarts += 1
        return {'instances_reloaded': len(self.w.instances)}

    async def op_advance_clock(self):
        dt = self.rng.choice([0.001, 0.5, 3, 60, 3600, 90000])
        self.w.loop.advance(dt)
        return {'dt': dt}

    async def op_resend(self):
        k = self.rng.random()
        if k < 0.5:
            return await self.op_submit_job_bunch(resend=True)
        if k < 0.7:
            return await self.op_submit_group_bunch(resend=True)
        if k < 0.85:
            return await self.op_commit(any_plan=True)
        reqs = [r for r in self.sent_requests if r[0] == 'create_update']
        if not reqs:
            return None
        _, bid, token, n_jobs, n_groups, user = self.rng.choice(reqs)
        r = await self.w.fe._create_batch_update(bid, token, n_jobs, n_groups, user, self.w.db)
        return {'resend_create_update': [bid, token], 'result': list(r)}

    DEFAULT_WEIGHTS = {
        'create_batch': 4, 'create_update': 3, 'submit_group_bunch': 6, 'submit_job_bunch': 9, 'commit': 6, 'resend': 3,
        'cancel_batch': 1, 'cancel_job_group': 2, 'delete_batch': 0.3, 'get_batch': 1, 'get_job_group': 1,
        'create_instance': 3, 'activate_instance': 2, 'deactivate_instance': 1.2, 'remove_instance': 0.5,
        'schedule_loop': 8, 'jpim_create': 2, 'jpim_schedule': 2, 'cancel_ready': 2, 'cancel_creating': 1, 'cancel_running': 1.5,
        'cancel_orphaned': 0.7, 'cancel_fast_failing': 1, 'cleanup_staging': 1, 'cleanup_cancellable': 1, 'compact': 0.7,
        'compact_by_date': 0.7, 'check_resource_aggregation': 0.3,
        'job_started': 5, 'job_complete': 9, 'billing_update': 2, 'unschedule': 1.5, 'add_attempt_resources': 1, 'advance_clock': 3,
        'interleaved_background': 1.5, 'restart_driver': 0,
    }

    async def step(self):
        weights = dict(self.DEFAULT_WEIGHTS)
        weights.update(self.cfg['weights'])
        names = [n for n, w in weights.items() if w > 0]
        for _ in range(20):
            name = self.rng.choices(names, [weights[n] for n in names])[0]
            rec = {'op': name}
            self.current = name
            try:
                res = await getattr(self, 'op_' + name)()
                if res is None:
                    continue
                rec['result'] = res
                rec['outcome'] = 'ok'
            except web.HTTPException as e:
                rec['outcome'] = f'http:{e.status}'
                rec['reason'] = (e.reason or '')[:200]
            except Unsupported as e:
                self.unsupported = str(e)
                rec['outcome'] = 'unsupported'
                rec['reason'] = str(e)[:300]
            except asyncio.CancelledError:
                raise
            except Exception as e:
                from gear.database import CallError

                from batch.exceptions import BatchUserError

                if isinstance(e, CallError):
                    rec['outcome'] = 'callerror'
                    rec['reason'] = str(e.rv)[:200]
                elif isinstance(e, BatchUserError):
                    rec['outcome'] = 'usererror:' + type(e).__name__
                    rec['reason'] = str(e)[:200]
                else:
                    rec['outcome'] = 'error:' + type(e).__name__
                    cause = e.__cause__ or e.__context__
                    rec['cause'] = f'{type(cause).__name__}: {cause}'[:300] if cause is not None else None
                    if isinstance(cause, Unsupported):
                        self.unsupported = str(cause)
                    rec['reason'] = (str(e)[:200] + ' | cause=' + str(rec['cause']) + ' | ' + traceback.format_exc()[-500:])
            self.history.append(rec)
            return rec
        return None
