"""The batch front end as an HTTP service without sockets: the live `routes` table of
front_end.py mounted on a real aiohttp router, requests are mocked aiohttp Requests, every
decorator (auth, billing-project membership, metadata) executes for real.  A fake auth service
answers the userinfo lookups the real AuthServiceAuthenticator makes."""
import json as _json

import aiohttp
from aiohttp import web
from aiohttp.test_utils import make_mocked_request
from multidict import CIMultiDict, CIMultiDictProxy
from yarl import URL


class FakeAuthService:
    """token -> userdata; unknown token -> 401 (as auth's /api/v1alpha/userinfo)"""

    def __init__(self):
        self.tokens = {}
        self.lookups = 0

    def add(self, token, userdata):
        self.tokens[token] = userdata

    async def get_read_json(self, url, headers=None, **kw):
        self.lookups += 1
        path = URL(url).path
        tok = (headers or {}).get('Authorization', '')
        tok = tok[len('Bearer '):] if tok.startswith('Bearer ') else None
        ud = self.tokens.get(tok)
        if ud is None:
            raise aiohttp.ClientResponseError(None, (), status=401, message='Unauthorized')
        if path.endswith('/userinfo'):
            return dict(ud)
        if 'check_system_permission' in path:
            return {'has_permission': bool(ud.get('is_developer'))}
        raise aiohttp.ClientResponseError(None, (), status=404, message='not found')


class FrontEnd:
    def __init__(self, world, auth_service=None):
        import warnings

        warnings.filterwarnings('ignore')
        self.w = world
        fe = world.fe
        self.auth_service = auth_service or FakeAuthService()
        app = self.app = web.Application()
        for k, v in world.fe_app.items():
            app[k] = v
        app.add_routes(fe.routes)
        # userinfo lookups of the real authenticator go to the fake auth service
        sess = world.session
        sess.get_read_json = self.auth_service.get_read_json
        # a fresh userdata cache per world (the authenticator object is module-global)
        try:
            from gear.auth import TEN_SECONDS_IN_NANOSECONDS
            from gear.time_limited_max_size_cache import TimeLimitedMaxSizeCache

            fe.auth._userdata_cache = TimeLimitedMaxSizeCache(fe.auth._fetch_userdata_from_auth_service, TEN_SECONDS_IN_NANOSECONDS, 100, 'session_userdata_cache')
        except Exception:
            pass

    def routes(self):
        out = []
        for r in self.app.router.routes():
            info = r.resource.get_info() if r.resource is not None else {}
            path = info.get('formatter') or info.get('path')
            out.append((r.method, path, r.handler))
        return out

    async def request(self, method, path, token=None, json=None, data=None, headers=None, cookie_session=None):
        h = CIMultiDict(headers or {})
        if token is not None:
            h['Authorization'] = f'Bearer {token}'
        body = b''
        if json is not None:
            body = _json.dumps(json).encode()
            h['Content-Type'] = 'application/json'
        elif data is not None:
            body = data if isinstance(data, bytes) else str(data).encode()
        req = make_mocked_request(method, path, headers=CIMultiDictProxy(h), app=self.app)
        req._read_bytes = body
        if cookie_session is not None:
            import aiohttp_session

            req[aiohttp_session.SESSION_KEY] = aiohttp_session.Session(data=cookie_session, new=False)
        mi = await self.app.router.resolve(req)
        req._match_info = mi
        mi.add_app(self.app)
        try:
            resp = await mi.handler(req)
        except web.HTTPException as e:
            resp = e
        status = getattr(resp, 'status', None)
        rbody = getattr(resp, 'body', None)
        text = None
        if isinstance(rbody, (bytes, bytearray)):
            text = bytes(rbody).decode('utf-8', 'replace')
        elif isinstance(resp, web.HTTPException):
            text = resp.text
        return Response(status, text, getattr(resp, 'headers', {}), resp)


class Response:
    def __init__(self, status, text, headers, raw):
        self.status = status
        self.text_ = text
        self.headers = headers
        self.raw = raw

    def json(self):
        return _json.loads(self.text_) if self.text_ else None
