"""Shared driver for the SQL-backed monitors: runs fuzzed histories in the batch world and calls the
attached monitors after every committed transaction."""
import logging
import random

from vf.harness import Inconclusive
from vf.sim.vloop import Deadlock, StepLimit, run_virtual
from vf.world.fuzz import Fuzzer
from vf.world.oracles import View
from vf.world.world import World


class Monitor:
    """base: override on_commit / on_op / at_end; report through self.r.violation(...)"""

    def attach(self, runner):
        self.r = runner

    def on_commit(self, view):
        pass

    def on_op(self, rec, view):
        pass

    def before_op(self, view):
        pass

    def at_end(self, view):
        pass


class HistoryRunner:
    def __init__(self, ctx, monitors, cfg=None, n_ops=60, n_tokens_choices=(1, 2, 4), world_kw=None, classify=None, setup=None):
        self.ctx = ctx
        self.monitors = monitors
        self.cfg = cfg or {}
        self.n_ops = n_ops
        self.n_tokens_choices = n_tokens_choices
        self.world_kw = world_kw or {}
        self.classify = classify
        self.setup = setup
        self.cur_op = None
        self.fz = None
        self.w = None
        self.reported = set()
        self.want_before = any(type(m).before_op is not Monitor.before_op for m in monitors)
        for m in monitors:
            m.attach(self)

    def violation(self, key, what, witness=None):
        if self.classify is not None:
            key = self.classify(key, what, witness, self) or key
        sig = (key, what[:80])
        if sig in self.reported:
            return
        self.reported.add(sig)
        hist = [{k: v for k, v in h.items() if k not in ('reason',)} for h in (self.fz.history[-int(__import__('os').environ.get('VERIF_HISTORY_TAIL', '25')):] if self.fz else [])]
        self.ctx.violation(key, what, {'detail': witness, 'current_op': self.cur_op, 'current_op_name': getattr(self.fz, 'current', None), 'n_ops_before': len(self.fz.history) if self.fz else 0, 'history_tail': hist})

    def run_case(self, i, rng: random.Random):
        logging.disable(logging.CRITICAL)
        ctx = self.ctx
        seed = rng.getrandbits(32)
        n_tokens = rng.choice(self.n_tokens_choices)
        self.reported = set()
        result = {}
        for m in self.monitors:
            if hasattr(m, 'reset'):
                m.reset()

        async def main(loop):
            w = self.w = World(seed=seed, loop=loop, n_tokens=n_tokens, **self.world_kw)
            await w.boot()
            cfg = dict(self.cfg)
            if 'discipline' not in cfg:
                # half of the histories use a well-behaved client (updates committed in order, no cross-update parents,
                # no cancel while an update is open) so that they are free of the recorded-defect patterns
                cfg['discipline'] = bool(seed & 1)
            ctx.count('histories_disciplined_client' if cfg['discipline'] else 'histories_hostile_client')
            fz = self.fz = Fuzzer(w, random.Random(seed ^ 0x5EED), cfg)
            def hook(db, conn):
                self.committing_statement = (getattr(conn, 'top_statement', None) or ('', None))[0] or ''
                v = View(db)
                for m in self.monitors:
                    m.on_commit(v)
                ctx.count('commits_checked')
            w.engine.commit_hooks.append(hook)
            if self.setup is not None:
                self.cur_op = -1
                await self.setup(self, w, fz, rng)
            try:
                for k in range(self.n_ops):
                    self.cur_op = k
                    if self.want_before:
                        v0 = View(w.engine)
                        for m in self.monitors:
                            m.before_op(v0)
                    rec = await fz.step()
                    if rec is None:
                        continue
                    ctx.count('ops')
                    ctx.count('op:' + rec['op'])
                    oc = rec['outcome']
                    ctx.seen('outcomes', rec['op'] + '/' + (oc if not oc.startswith('error') else oc))
                    if fz.unsupported:
                        raise Inconclusive('minimysql: unsupported construct: ' + fz.unsupported)
                    v = View(w.engine)
                    for m in self.monitors:
                        m.on_op(rec, v)
                v = View(w.engine)
                for m in self.monitors:
                    m.at_end(v)
            finally:
                w.engine.commit_hooks.remove(hook)
                for key, n in w.engine.branch_hits.items():
                    ctx.seen('sql_branch_arms', f'{key[0]}#{key[1]}:{key[2]}')
                for name, n in w.engine.routine_calls.items():
                    ctx.count('sql_routine:' + name, n)
                result['ops'] = [h['op'] + ':' + h['outcome'].split(':')[0] for h in fz.history]
                ctx.count('worker_job_started_overtook_schedule_job', getattr(fz, 'early_job_started', 0))
                ctx.count('worker_job_complete_overtook_schedule_job', getattr(fz, 'early_job_complete', 0))
                ctx.count('commits_through_the_commit_route', getattr(fz, 'route_commits', 0))
                ctx.count('driver_restarts', getattr(fz, 'driver_restarts', 0))
                ctx.count('requests_served_in_the_middle_of_a_background_pass', getattr(fz, 'interleavings', 0))
                pm = next((m for m in self.monitors if hasattr(m, 'flags')), None)
                if pm is not None:
                    ctx.count('histories_free_of_known_patterns' if not pm.flags else 'histories_with_known_patterns')
                await w.shutdown()
        try:
            run_virtual(main, max_steps=5_000_000)
        except (Deadlock, StepLimit) as e:
            ctx.inconclusive_because(f'case {i}: virtual loop {type(e).__name__}: {e}')
        return result
