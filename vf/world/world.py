"""Batch world: real front-end and driver code of /repo booted in-process over minimysql.

Nothing from /repo is copied: the modules are imported from the working tree, the SQL routines are
read from batch/sql at start-up.  Fakes stand only where the real service talks to the outside
(cloud storage, k8s, worker HTTP, auth service).
"""
import asyncio
import json
import random
import secrets as _secrets
import warnings

import vf.bootstrap as _bs

from vf.minimysql.engine import Database as Engine

USERS = ['alice', 'bob', 'ci']
BILLING_PROJECTS = {'bp-a': ['alice', 'bob'], 'bp-b': ['bob'], 'bp-ci': ['ci']}
RESOURCES = [
    # (name, rate, deduped id shares)
    ('compute/n1-preemptible/1', 0.001, None),
    ('compute/n1-preemptible/2', 0.002, 1),  # shares deduped id with the first
    ('memory/n1-preemptible/1', 0.0001, None),
    ('service-fee/1', 0.00005, None),
]


_ENGINE_CACHE = None  # one engine per process: SQL is parsed once, tables are emptied per history


class Discarded:
    """task manager that does not run fire-and-forget coroutines (records them)"""

    def __init__(self, world, name):
        self.world = world
        self.name = name
        self.n = 0

    def ensure_future(self, coro):
        self.n += 1
        if self.world.run_background:
            t = asyncio.ensure_future(coro)
            self.world.bg_tasks.append(t)
            return t
        coro.close()
        return None

    def shutdown(self):
        pass

    async def shutdown_and_wait(self):
        pass


class FakeResponse:
    def __init__(self, status=200, body=None):
        self.status = status
        self._body = body if body is not None else {}

    async def json(self):
        return self._body

    async def text(self):
        return json.dumps(self._body)

    async def read(self):
        return json.dumps(self._body).encode()

    def raise_for_status(self):
        pass

    async def __aenter__(self):
        return self

    async def __aexit__(self, *a):
        return False

    def release(self):
        pass


class FakeClientSession:
    """stands where hailtop.httpx.ClientSession is; routes worker URLs to world.worker_handler"""

    def __init__(self, world):
        self.world = world
        self.requests = []

    def _do(self, method, url, **kw):
        self.requests.append((method, url))
        h = self.world.http_handler
        return _Req(h(method, url, kw) if h is not None else _ok())

    def post(self, url, **kw):
        return self._do('POST', url, **kw)

    def get(self, url, **kw):
        return self._do('GET', url, **kw)

    def patch(self, url, **kw):
        return self._do('PATCH', url, **kw)

    def delete(self, url, **kw):
        return self._do('DELETE', url, **kw)

    def put(self, url, **kw):
        return self._do('PUT', url, **kw)

    async def close(self):
        pass


async def _ok():
    return FakeResponse()


class _Req:
    def __init__(self, coro):
        self._coro = coro

    def __await__(self):
        return self._coro.__await__()

    async def __aenter__(self):
        return await self._coro

    async def __aexit__(self, *a):
        return False


class FakeFileStore:
    def __init__(self):
        self.files = {}

    async def write_spec_file(self, batch_id, token, data_bytes, offsets_bytes):
        self.files[('spec', batch_id, token)] = (bytes(data_bytes), bytes(offsets_bytes))

    async def read_spec_file(self, batch_id, token, start_job_id, job_id):
        raise FileNotFoundError

    async def write_status_file(self, batch_id, job_id, attempt_id, status):
        self.files[('status', batch_id, job_id, attempt_id)] = status

    async def read_status_file(self, batch_id, job_id, attempt_id):
        return self.files.get(('status', batch_id, job_id, attempt_id))

    async def delete_batch_logs(self, batch_id):
        pass

    async def close(self):
        pass


class FakeK8sSecret:
    def __init__(self):
        self.data = {'key.json': 'e30=', 'token': 'dG9r', 'ca.crt': 'Y2E='}


class FakeK8sCache:
    async def read_secret(self, name, namespace):
        return FakeK8sSecret()

    async def read_service_account(self, name, namespace):
        class SA:
            secrets = None
        return SA()


class FakeCredentials:
    async def auth_headers(self):
        return {'Authorization': 'Bearer internal'}

    async def close(self):
        pass


class FakeInstanceConfig:
    cloud = 'gcp'

    def __init__(self, machine_type='n1-standard-16', preemptible=True):
        self.machine_type = machine_type
        self.preemptible = preemptible
        self.cores = int(machine_type.rsplit('-', 1)[1])
        self.job_private = False

    def to_dict(self):
        return {'cloud': 'gcp', 'version': 5, 'name': 'fake', 'machine_type': self.machine_type, 'preemptible': self.preemptible}

    def region_for(self, location):
        return location.rsplit('-', 1)[0]

    def quantified_resources(self, *a, **k):
        return []


class FakeLocationMonitor:
    def default_location(self):
        return 'us-central1-a'

    def choose_location(self, *a, **k):
        return 'us-central1-a'


class FakeDriver:
    def __init__(self, icm):
        self._icm = icm
        self.job_private_inst_manager = None

    @property
    def inst_coll_manager(self):
        return self._icm


class App(dict):
    """dict standing where aiohttp's web.Application is used as a mapping"""

    def __hash__(self):
        return id(self)


def seed_engine(engine, n_tokens=2, pools=None):
    c = engine.connect()
    pools = pools or [('standard', 'standard', 16, True, '')]
    c.execute("INSERT INTO globals (instance_id, internal_token, n_tokens, frozen) VALUES (%s, %s, %s, %s)", ('verif-iid', 'tok', n_tokens, 0))
    c.execute("INSERT INTO feature_flags (compact_billing_tables, oms_agent, dockerhub_proxy) VALUES (1, 0, 0)")
    for i, (name, rate, dedup) in enumerate(RESOURCES, 1):
        c.execute("INSERT INTO resources (resource, rate, resource_id, deduped_resource_id) VALUES (%s, %s, %s, %s)", (name, rate, i, dedup or i))
    for name, wtype, cores, preempt, label in pools:
        c.execute(
            "INSERT INTO inst_colls (name, is_pool, boot_disk_size_gb, max_instances, max_live_instances, cloud, "
            "max_new_instances_per_autoscaler_loop, autoscaler_loop_period_secs, worker_max_idle_time_secs) VALUES (%s, 1, 10, 100, 100, 'gcp', 10, 15, 30)",
            (name,))
        c.execute(
            "INSERT INTO pools (name, worker_type, worker_cores, worker_local_ssd_data_disk, worker_external_ssd_data_disk_size_gb, "
            "enable_standing_worker, standing_worker_cores, preemptible, standing_worker_max_idle_time_secs, job_queue_scheduling_window_secs, "
            "min_instances, label) VALUES (%s, %s, %s, 1, 0, 0, 4, %s, 7200, 150, 0, %s)",
            (name, wtype, cores, int(preempt), label))
    c.execute(
        "INSERT INTO inst_colls (name, is_pool, boot_disk_size_gb, max_instances, max_live_instances, cloud, "
        "max_new_instances_per_autoscaler_loop, autoscaler_loop_period_secs, worker_max_idle_time_secs) VALUES ('job-private', 0, 10, 100, 100, 'gcp', 10, 15, 30)")
    for bp, users in BILLING_PROJECTS.items():
        c.execute("INSERT INTO billing_projects (name, name_cs) VALUES (%s, %s)", (bp, bp))
        for u in users:
            c.execute("INSERT INTO billing_project_users (billing_project, user, user_cs) VALUES (%s, %s, %s)", (bp, u, u))
    for i, r in enumerate(['us-central1', 'us-east1'], 1):
        c.execute("INSERT INTO regions (region_id, region) VALUES (%s, %s)", (i, r))
    c.execute("INSERT INTO latest_product_versions (product, version) VALUES ('compute/n1-preemptible', '1')")


def userdata(user):
    return {
        'id': USERS.index(user) + 1 if user in USERS else 99,
        'username': user,
        'state': 'active',
        'is_developer': 1 if user == 'ci' else 0,
        'is_service_account': 0,
        'hail_credentials_secret_name': f'{user}-gsa-key',
        'tokens_secret_name': f'{user}-tokens',
        'hail_identity': f'{user}@verif.invalid',
        'login_id': f'{user}@login.invalid',
        'display_name': user,
        'namespace_name': None,
        'trial_bp_name': None,
        'session_id': 'sess-' + user,
    }


class World:
    def __init__(self, seed=0, n_tokens=2, loop=None, pools=None, run_background=False):
        self.seed = seed
        self.n_tokens = n_tokens
        self.loop = loop
        self.pools_cfg = pools
        self.run_background = run_background
        self.bg_tasks = []
        self.http_handler = None
        self.rng = random.Random(seed)
        self.instances = {}
        self._patched = []

    # ---- determinism -------------------------------------------------------------------------
    def _patch(self, obj, name, value):
        self._patched.append((obj, name, getattr(obj, name)))
        setattr(obj, name, value)

    def unpatch(self):
        for obj, name, old in reversed(self._patched):
            setattr(obj, name, old)
        self._patched = []

    def now_ms(self):
        return int(self.loop.time() * 1000)

    async def boot(self):
        import aiomysql

        warnings.filterwarnings('ignore')
        loop = self.loop = self.loop or asyncio.get_event_loop()
        clock = loop.time
        global _ENGINE_CACHE
        if _ENGINE_CACHE is None:
            _ENGINE_CACHE = Engine(seed=self.seed, clock=clock)
        self.engine = _ENGINE_CACHE
        self.engine.reset(seed=self.seed, clock=clock)
        seed_engine(self.engine, self.n_tokens, self.pools_cfg)
        aiomysql.ENGINE = self.engine
        _bs.seed_global_config()
        import hailtop.utils.time as hut

        tm = loop.time_module() if hasattr(loop, 'time_module') else None
        if tm is not None:
            self._patch(hut, 'time', tm)
        rng = random.Random(self.seed + 1)
        random.seed(self.seed + 2)
        alnum = 'abcdefghijklmnopqrstuvwxyz0123456789'
        self._patch(_secrets, 'choice', lambda seq: rng.choice(seq))
        self._patch(_secrets, 'token_urlsafe', lambda n=32: ''.join(rng.choice(alnum) for _ in range(n)))
        self._patch(_secrets, 'token_hex', lambda n=32: ''.join(rng.choice('0123456789abcdef') for _ in range(2 * n)))

        from gear import CommonAiohttpAppKeys, Database
        from hailtop.utils import AsyncWorkerPool, Notice

        self.db = Database()
        await self.db.async_init(maxsize=50)
        self.session = FakeClientSession(self)
        self.file_store = FakeFileStore()

        # ---- front end app -------------------------------------------------------------------
        from batch.front_end import front_end as fe
        from batch.inst_coll_config import InstanceCollectionConfigs

        self.fe = fe
        app = self.fe_app = App()
        self.fe_startup = await self._front_end_startup(fe, app)
        if self.fe_startup != 'real':
            # fall-back: the keys the real on_startup sets, as of the pinned tree (a monitor that depends on anything newer fails loudly)
            app['db'] = self.db
            app[CommonAiohttpAppKeys.CLIENT_SESSION] = self.session
            app['n_tokens'] = self.n_tokens
            app['instance_id'] = 'verif-iid'
            app['hail_credentials'] = FakeCredentials()
            app['default_region'] = 'us-central1'
            app['frozen'] = False
            app['feature_flags'] = {'compact_billing_tables': 1, 'oms_agent': 0, 'dockerhub_proxy': 0}
            app['regions'] = {'us-central1': 1, 'us-east1': 2}
            app['file_store'] = self.file_store
            app['task_manager'] = Discarded(self, 'fe')
            app['inst_coll_configs'] = await InstanceCollectionConfigs.create(self.db)
            app['cancel_batch_state_changed'] = asyncio.Event()
            app['delete_batch_state_changed'] = asyncio.Event()

        # ---- driver app ----------------------------------------------------------------------
        from batch.driver import main as dm
        from batch.driver.canceller import Canceller
        from batch.driver.instance_collection.base import InstanceCollectionManager
        from batch.driver.instance_collection.pool import Pool

        self.dm = dm
        d = self.dr_app = App()
        d['db'] = self.db
        d[CommonAiohttpAppKeys.CLIENT_SESSION] = self.session
        d['instance_id'] = 'verif-iid'
        d['frozen'] = False
        d['feature_flags'] = app['feature_flags']
        d['regions'] = app['regions']
        d['file_store'] = self.file_store
        d['k8s_cache'] = FakeK8sCache()
        d['scheduler_state_changed'] = Notice()
        d['cancel_ready_state_changed'] = asyncio.Event()
        d['cancel_creating_state_changed'] = asyncio.Event()
        d['cancel_running_state_changed'] = asyncio.Event()
        d['async_worker_pool'] = AsyncWorkerPool(100, queue_size=100)
        d['task_manager'] = Discarded(self, 'driver')
        await dm.refresh_globals_from_db(d, self.db)
        icm = self.icm = InstanceCollectionManager(self.db, 'batch-worker-default-', FakeLocationMonitor(), 'us-central1', ['us-central1', 'us-east1'])
        d['driver'] = FakeDriver(icm)
        self.pools = {}
        quiet = Discarded(self, 'pool')
        keep_bg = self.run_background
        self.run_background = False  # never start the repo's own infinite loops; the harness drives loop bodies
        try:
            for name, cfg in app['inst_coll_configs'].name_pool_config.items():
                self.pools[name] = Pool(d, self.db, icm, None, 'batch-worker-default-', cfg, d['async_worker_pool'], quiet)
            self.jpim = _make_jpim(self, d, icm, quiet)
            d['driver'].job_private_inst_manager = self.jpim
            self.canceller = Canceller(d)
        finally:
            self.run_background = keep_bg
        d['canceller'] = self.canceller
        return self

    async def restart_driver(self):
        """the driver process restarts: every in-memory instance collection is rebuilt from the database by the repository's own
        `Pool.create` / `JobPrivateInstanceManager.create` (which load the rows through `Instance.from_record`); the tables, the
        fake workers and the clock carry on"""
        from batch.driver.canceller import Canceller
        from batch.driver.instance_collection import InstanceCollectionManager, JobPrivateInstanceManager, Pool

        d = self.dr_app
        icm = self.icm = InstanceCollectionManager(self.db, 'batch-worker-default-', FakeLocationMonitor(), 'us-central1', ['us-central1', 'us-east1'])
        d['driver'] = FakeDriver(icm)
        quiet = Discarded(self, 'pool')
        keep_bg = self.run_background
        self.run_background = False
        # the rows carry the fake instance configuration the world created them with (machine type + preemptibility only): decode
        # it back into the same stand-in instead of the cloud-specific class
        import batch.driver.instance as _inst_mod

        real_decode = _inst_mod.instance_config_from_config_dict
        _inst_mod.instance_config_from_config_dict = lambda c: FakeInstanceConfig(c.get('machine_type', 'n1-standard-16'), c.get('preemptible', True)) if c.get('name') == 'fake' else real_decode(c)
        try:
            for name, cfg in self.fe_app['inst_coll_configs'].name_pool_config.items():
                self.pools[name] = await Pool.create(d, self.db, icm, None, 'batch-worker-default-', cfg, d['async_worker_pool'], quiet)
            self.jpim = await JobPrivateInstanceManager.create(d, self.db, icm, None, 'batch-worker-default-', self.fe_app['inst_coll_configs'].jpim_config, quiet)
            d['driver'].job_private_inst_manager = self.jpim
            self.canceller = Canceller(d)
        finally:
            self.run_background = keep_bg
            _inst_mod.instance_config_from_config_dict = real_decode
        d['canceller'] = self.canceller
        self.instances = {}
        for ic in list(self.pools.values()) + [self.jpim]:
            for inst in ic.name_instance.values():
                self.instances[inst.name] = inst
        self.n_driver_restarts = getattr(self, 'n_driver_restarts', 0) + 1

    async def _front_end_startup(self, fe, app):
        """run the service's own `on_startup` (so that whatever it puts into the app is there), with the outside world replaced:
        HTTP session, database handle (the world's), credentials, cloud config, file store, background task manager"""
        import types

        db = self.db

        class _DB:
            def __new__(cls, *a, **k):
                return db
        real_init = db.async_init

        async def _noop(*a, **k):
            return None
        try:
            db.async_init = _noop
            self._patch(fe, 'Database', _DB)
            self._patch(fe.httpx, 'client_session', lambda *a, **k: self.session)
            self._patch(fe, 'hail_credentials', lambda *a, **k: FakeCredentials())
            self._patch(fe, 'get_gcp_config', lambda: types.SimpleNamespace(region='us-central1', project='verif', zone='us-central1-a'))
            self._patch(fe, 'get_cloud_async_fs', lambda *a, **k: self.file_store)
            self._patch(fe, 'FileStore', lambda *a, **k: self.file_store)
            self._patch(fe.aiotools, 'BackgroundTaskManager', lambda *a, **k: Discarded(self, 'fe'))
            keep = self.run_background
            self.run_background = False
            try:
                await fe.on_startup(app)
            finally:
                self.run_background = keep
            app['exit_stack'].pop_all()  # nothing of the above must be closed by the service's own clean-up
            return 'real'
        except Exception as e:  # pylint: disable=broad-except
            for k in list(app.keys()) if hasattr(app, 'keys') else []:
                try:
                    del app[k]
                except Exception:
                    pass
            return f'manual ({type(e).__name__}: {e})'
        finally:
            db.async_init = real_init

    async def shutdown(self):
        for t in self.bg_tasks:
            t.cancel()
        try:
            await self.dr_app['async_worker_pool'].shutdown_and_wait()
        except Exception:
            pass
        try:
            await self.db.async_close()
        except Exception:
            pass
        self.unpatch()

    # ---- driver-side helpers (all through the real code) -----------------------------------------
    async def create_instance(self, inst_coll_name='standard', cores=16, activate=True, location='us-central1-a'):
        from batch.driver.instance import Instance

        ic = self.pools.get(inst_coll_name) or self.jpim
        name = ic.generate_machine_name()
        inst = await Instance.create(self.dr_app, ic, name, 'act-' + name, cores, location, f'n1-standard-{cores}', True, FakeInstanceConfig(f'n1-standard-{cores}'))
        ic.add_instance(inst)
        self.instances[name] = inst
        if activate:
            # live VMs never share an address (the fake worker endpoint resolves the instance by it); after a driver restart the
            # table of tracked instances shrinks, so count upwards past every address in use
            used = {i.ip_address for i in self.instances.values()}
            n = len(self.instances) + 1
            while '10.0.%d.%d' % (n // 250, 1 + n % 250) in used:
                n += 1
            await inst.activate('10.0.%d.%d' % (n // 250, 1 + n % 250), self.now_ms())
        return inst


def _make_jpim(world, d, icm, quiet):
    from batch.driver.instance_collection.job_private import JobPrivateInstanceManager

    cfg = world.fe_app['inst_coll_configs'].jpim_config
    try:
        return JobPrivateInstanceManager(d, world.db, icm, None, 'batch-worker-default-', cfg, quiet)
    except TypeError:
        import inspect

        sig = inspect.signature(JobPrivateInstanceManager.__init__)
        raise RuntimeError(f'JobPrivateInstanceManager signature changed: {sig}')
