"""Shared pieces of the SQL-backed monitors (C01..C07, C10, C41)."""
from vf.world import oracles
from vf.world.oracles import LIVE, TERMINAL
from vf.world.patterns import Patterns
from vf.world.run import HistoryRunner, Monitor

COMMON_ASSUMPTIONS = [
    'minimysql executes the repository SQL text with MySQL 8 semantics (DESIGN 2.2, Appendix A); each transaction / CALL is one atomic step; InnoDB lock anomalies are not explored',
    'INSERT ... SELECT (@v := ...) ... ON DUPLICATE KEY UPDATE is evaluated row by row (A8)',
    'fakes: file store, k8s secret cache, worker HTTP endpoint, cloud resource manager, auth userdata',
    'witnesses explained by a recorded defect pattern (vf/world/patterns.py) are attributed to that known finding',
]
RULE_HISTORIES = ('seeded random histories over ~35 client / driver / worker / background operations of the batch world, all through the '
                  "repository's real entry points (<=3 batches, <=3 updates each, nested job groups, <=6 jobs per update, <=3 live instances, "
                  'pool + job-private jobs, n_tokens in {1,2,4}); half of the histories use a disciplined client, half a hostile one; the oracle '
                  'runs after every committed transaction. Distinct by the sequence of (operation, outcome); non-trivial when >= 5 operations applied.')
WEIGHTS_RUN = {'create_batch': 3, 'create_instance': 2, 'schedule_loop': 10, 'job_complete': 12, 'job_started': 6, 'commit': 8, 'submit_job_bunch': 10}


def explain(p: Patterns, key, scopes):
    names = set()
    for s in scopes:
        names.update(p.explains(s))
    if names:
        return key.split('/')[0] + '/via-' + sorted(names)[0]  # one originating mechanism per witness (alphabetically first)
    return key


class EdgeMonitor(Monitor):
    """job state edges between consecutive committed states (C04 lifecycle, C05/C07 'never runs when cancelled')"""
    ALLOWED = {
        ('Pending', 'Ready'), ('Ready', 'Creating'), ('Ready', 'Running'), ('Creating', 'Running'), ('Creating', 'Ready'), ('Running', 'Ready'),
    } | {(a, t) for a in LIVE for t in TERMINAL}

    def __init__(self, patterns, check_lifecycle=True, check_cancel=True, check_handover=False):
        self.p = patterns
        self.check_lifecycle = check_lifecycle
        self.check_cancel = check_cancel
        self.check_handover = check_handover
        self.reset()

    def reset(self):
        self.prev = {}
        self.prev_marked = {}
        self.prev_attempt = {}
        self.posts_seen = 0

    def check_posts(self):
        """C05 "unless it is always-run, it never runs": the driver POSTs a job to the worker BEFORE the SQL gate (CALL schedule_job), so
        a job handed over starts on the worker even if the gate then refuses it.  A child is marked cancelled (jobs.cancelled = 1)
        in the same transaction that readies it, so no scheduling pass of the unchanged service can have selected it earlier: a
        hand-over of a non-always-run job carrying that mark is a selection bug.  (Group cancellation is different - a cancel can
        land between selection and hand-over, and C07 speaks of state moves only - and is not judged here.)"""
        fz = getattr(self.r, 'fz', None)
        if fz is None or not self.check_handover:
            return
        posts = fz.worker_posts
        while self.posts_seen < len(posts):
            p = posts[self.posts_seen]
            self.posts_seen += 1
            self.r.ctx.count('worker_hand_overs_checked')
            if p['cancelled_flag']:
                self.r.ctx.count('worker_hand_overs_of_jobs_marked_cancelled_by_a_parent')
            if p['cancelled_flag'] and not p['always_run'] and p['committed']:
                k = tuple(p['job'])
                self.r.violation(explain(self.p, 'cancelled-child-handed-to-a-worker', [('job', k), ('batch', k[0])]),
                                 f'job {k} (not always_run, {p["state"]}, cancelled = 1 because a parent did not succeed) was POSTed to a worker', p)

    def on_op(self, rec, v):
        self.check_posts()

    def on_commit(self, v):
        ctx = self.r.ctx
        T = v.eng.tables
        self.check_posts()
        for k, j in v.jobs.items():
            s = j['state']
            ps = self.prev.get(k)
            if ps is not None and ps != s:
                ctx.seen('job_state_edges', f'{ps}->{s}')
                ctx.count('job_state_transitions')
                scopes = [('job', k), ('batch', k[0])]
                if self.check_lifecycle and (ps, s) not in self.ALLOWED:
                    key = 'lifecycle/terminal-left' if ps in TERMINAL else ('lifecycle/pending-skipped' if ps == 'Pending' else 'lifecycle/illegal-edge')
                    self.r.violation(explain(self.p, key, scopes), f'job {k} moved {ps} -> {s}', {'job': list(k), 'edge': [ps, s]})
                if self.check_lifecycle and s == 'Ready' and ps in ('Creating', 'Running') and self.prev_attempt.get(k) is not None:
                    # "a Creating or Running job may fall back to Ready when its attempt is withdrawn": the attempt it was
                    # running under must be over (ended, or its instance gone)
                    ctx.count('fallbacks_to_ready_checked')
                    a = T['attempts'].pk_get(k[0], k[1], self.prev_attempt[k])
                    inst = T['instances'].pk_get(a['instance_name']) if a is not None and a['instance_name'] is not None else None
                    if a is not None and a['end_time'] is None and inst is not None and inst['state'] in ('pending', 'active'):
                        self.r.violation(explain(self.p, 'lifecycle/fell-back-to-ready-while-its-attempt-is-live', scopes),
                                         f'job {k} moved {ps} -> Ready although its attempt {self.prev_attempt[k]} on {a["instance_name"]} ({inst["state"]}) has not ended',
                                         {'job': list(k), 'attempt': self.prev_attempt[k]})
                if self.check_cancel and s == 'Cancelled' and j['always_run']:
                    # "always-run children run regardless": nothing may end an always-run job as Cancelled (the canceller's
                    # ready / creating / running sweeps exempt always-run jobs; workers never report that state)
                    self.r.violation(explain(self.p, 'always-run-job-cancelled', scopes), f'always-run job {k} moved {ps} -> Cancelled', {'job': list(k), 'edge': [ps, s]})
                if self.check_cancel and j['always_run'] and s in TERMINAL:
                    ctx.count('always_run_jobs_reaching_a_terminal_state')
                if self.check_cancel and ((s in ('Creating', 'Running') and ps not in ('Creating', 'Running')) or (s == 'Running' and ps == 'Creating')):
                    if self.prev_marked.get(k) and not j['always_run']:
                        self.r.violation(explain(self.p, 'cancelled-job-started/entered-' + s.lower(), scopes),
                                         f'job {k} (not always_run) entered {s} although it was already marked cancelled', {'job': list(k), 'edge': [ps, s]})
            self.prev[k] = s
            self.prev_attempt[k] = j['attempt_id']
            self.prev_marked[k] = v.marked_cancelled(j) and v.committed(j)


def standard_run(ctx, make_monitors, n_hist=(100, 1200), n_ops=(80, 140), cfg=None, **kw):
    p = Patterns()
    mons = [p] + list(make_monitors(p))
    c = {'weights': dict(WEIGHTS_RUN)}
    if cfg:
        w = dict(WEIGHTS_RUN)
        w.update(cfg.get('weights', {}))
        c.update(cfg)
        c['weights'] = w
    r = HistoryRunner(ctx, mons, cfg=c, n_ops=ctx.pick(*n_ops), **kw)
    for i, rng in ctx.cases(ctx.pick(*n_hist)):
        res = r.run_case(i, rng)
        ops = res.get('ops', [])
        ctx.case(sample={'ops': ops[:50]}, key=tuple(ops), nontrivial=len(ops) >= 5)
    return r
