"""A non-executing hail Backend for monitors that only *build* IR (C35, C36).

``install()`` creates a real ``hail.context.HailContext`` around a ``FakeBackend`` (a genuine subclass
of the repository's abstract ``hail.backend.Backend``) and two small reference genomes (aggregator signatures are registered by
``import hail`` itself).  Everything that
would need the Scala engine (``_rpc``: execute, value_type, table_type, ...) raises
``BackendUnavailable`` and is counted in ``FakeBackend.rpc_attempts`` so a monitor can tell that a
front-end call wanted to execute.

Nothing of hail is re-implemented here: expression / Table / MatrixTable construction, typing and
rendering are the repository's code.
"""
import logging


class BackendUnavailable(Exception):
    """the front end tried to talk to the (absent) Scala engine"""


_installed = None


def install():
    """Idempotent.  Returns the FakeBackend instance."""
    global _installed
    if _installed is not None:
        return _installed

    import hail  # noqa: F401  (under vf.bootstrap)
    from hail.backend.backend import Backend
    from hail.context import HailContext
    from hail.utils.java import Env

    class FakeBackend(Backend):
        rpc_attempts = 0

        def __init__(self):
            super().__init__()
            self._flags = {}
            self._local_tmpdir = 'file:///nonexistent-verif/local'
            self._remote_tmpdir = 'file:///nonexistent-verif/remote'
            self._logger = logging.getLogger('verif.fake_hail_backend')
            self._logger.addHandler(logging.NullHandler())
            self._logger.propagate = False

        # ---- anything that needs the engine -------------------------------------------------
        def _rpc(self, action, payload):
            FakeBackend.rpc_attempts += 1
            raise BackendUnavailable(f'no engine in the sandbox (action {action})')

        def execute(self, ir, timed=False):
            FakeBackend.rpc_attempts += 1
            raise BackendUnavailable('no engine in the sandbox (execute)')

        def persist_expression(self, expr):
            raise BackendUnavailable('persist_expression')

        def validate_file(self, uri):
            raise BackendUnavailable('validate_file')

        def add_sequence(self, name, fasta_file, index_file):
            raise BackendUnavailable('add_sequence')

        def remove_sequence(self, name):
            raise BackendUnavailable('remove_sequence')

        def add_liftover(self, name, chain_file, dest_reference_genome):
            raise BackendUnavailable('add_liftover')

        def remove_liftover(self, name, dest_reference_genome):
            raise BackendUnavailable('remove_liftover')

        def initialize_references(self):
            pass  # the builtin references live in the (absent) jar; see install() below

        # ---- inert plumbing -----------------------------------------------------------------
        def stop(self):
            super().stop()

        def set_flags(self, **flags):
            self._flags.update(flags)

        def get_flags(self, *flags):
            return {f: self._flags[f] for f in flags if f in self._flags}

        @property
        def logger(self):
            return self._logger

        @property
        def fs(self):
            raise BackendUnavailable('fs')

        @property
        def requires_lowering(self):
            return True

        @property
        def local_tmpdir(self):
            return self._local_tmpdir

        @local_tmpdir.setter
        def local_tmpdir(self, d):
            self._local_tmpdir = d

        @property
        def remote_tmpdir(self):
            return self._remote_tmpdir

        @remote_tmpdir.setter
        def remote_tmpdir(self, d):
            self._remote_tmpdir = d

        @property
        def requester_pays_config(self):
            return None

        @requester_pays_config.setter
        def requester_pays_config(self, c):
            pass

    backend = FakeBackend()
    if Env._hc is not None:
        raise RuntimeError('a HailContext already exists')
    hc = HailContext(log='/dev/null', quiet=True, append=False, global_seed=0, backend=backend)

    from hail.genetics.reference_genome import ReferenceGenome

    # two tiny references under the usual names (so that tlocus('GRCh37') etc. resolve)
    for name in ('GRCh37', 'GRCh38'):
        pre = 'chr' if name == 'GRCh38' else ''
        contigs = [pre + c for c in ('1', '2', 'X', 'Y', 'MT' if not pre else 'M')]
        lengths = {c: n for c, n in zip(contigs, (1000, 800, 600, 400, 100))}
        rg = ReferenceGenome(
            name, contigs, lengths, x_contigs=[contigs[2]], y_contigs=[contigs[3]], mt_contigs=[contigs[4]],
            par=[(contigs[2], 10, 20)], _builtin=True,
        )
        backend._references[name] = rg
    hc._default_ref = backend._references['GRCh37']

    import hail.ir

    if hasattr(hail.ir, 'register_functions'):  # older trees; this version registers aggregators at import
        hail.ir.register_functions()
    _installed = backend
    return backend
