"""Tokeniser for the MySQL dialect subset used by the batch service."""
import re
from decimal import Decimal


class SQLSyntaxError(Exception):
    pass


class Tok:
    __slots__ = ('kind', 'val', 'up', 'pos')

    def __init__(self, kind, val, pos, up=None):
        self.kind = kind  # id | qid | num | str | op | uvar | param | eof
        self.val = val
        self.up = up if up is not None else (val.upper() if kind == 'id' else None)
        self.pos = pos

    def __repr__(self):
        return f'{self.kind}:{self.val!r}'


_OPS = [':=', '<=>', '<<', '>>', '<=', '>=', '<>', '!=', '||', '&&', '=', '<', '>', '+', '-', '*', '/', '%', '(', ')', ',', '.', ';',
        '!', '|', '&', '~', '^']
_ID = re.compile(r'[A-Za-z_$][A-Za-z0-9_$]*')
_NUM = re.compile(r'(?:\d+\.\d*|\.\d+|\d+)(?:[eE][+-]?\d+)?')
_ESC = {'0': '\0', "'": "'", '"': '"', 'b': '\b', 'n': '\n', 'r': '\r', 't': '\t', 'Z': '\x1a', '\\': '\\', '%': '\\%', '_': '\\_'}


def tokenize(sql, params_style=True):
    """`%s` / `%(name)s` are parameter tokens and `%%` is a literal percent (pymysql's format step)
    when params_style is True (statements coming from Python); routine bodies use False."""
    toks = []
    i = 0
    n = len(sql)
    pidx = 0
    while i < n:
        c = sql[i]
        if c in ' \t\r\n':
            i += 1
            continue
        if c == '#' or (sql.startswith('--', i) and (i + 2 >= n or sql[i + 2] in ' \t\r\n')):
            j = sql.find('\n', i)
            i = n if j < 0 else j + 1
            continue
        if sql.startswith('/*', i):
            j = sql.find('*/', i + 2)
            i = n if j < 0 else j + 2
            continue
        if c in '\'"':
            j = i + 1
            out = []
            while True:
                if j >= n:
                    raise SQLSyntaxError(f'unterminated string at {i}')
                d = sql[j]
                if d == '\\' and j + 1 < n:
                    e = sql[j + 1]
                    out.append(_ESC.get(e, e))
                    j += 2
                    continue
                if d == c:
                    if j + 1 < n and sql[j + 1] == c:
                        out.append(c)
                        j += 2
                        continue
                    break
                if params_style and d == '%' and j + 1 < n and sql[j + 1] == '%':
                    out.append('%')
                    j += 2
                    continue
                if params_style and d == '%' and j + 1 < n and sql[j + 1] in 's(':
                    raise SQLSyntaxError('parameter inside string literal: needs textual substitution')
                out.append(d)
                j += 1
            toks.append(Tok('str', ''.join(out), i))
            i = j + 1
            continue
        if c == '`':
            j = sql.find('`', i + 1)
            if j < 0:
                raise SQLSyntaxError('unterminated identifier')
            toks.append(Tok('qid', sql[i + 1:j], i, up=sql[i + 1:j].upper()))
            i = j + 1
            continue
        if c == '@':
            m = _ID.match(sql, i + 1)
            if not m:
                raise SQLSyntaxError(f'bad user variable at {i}')
            toks.append(Tok('uvar', m.group(0).lower(), i))
            i = m.end()
            continue
        if params_style and c == '%':
            if sql.startswith('%s', i):
                toks.append(Tok('param', pidx, i))
                pidx += 1
                i += 2
                continue
            if sql.startswith('%(', i):
                j = sql.find(')s', i)
                if j < 0:
                    raise SQLSyntaxError('bad named parameter')
                toks.append(Tok('param', sql[i + 2:j], i))
                i = j + 2
                continue
            if sql.startswith('%%', i):
                toks.append(Tok('op', '%', i))
                i += 2
                continue
        m = _NUM.match(sql, i) if (c.isdigit() or (c == '.' and i + 1 < n and sql[i + 1].isdigit())) else None
        if m:
            s = m.group(0)
            if re.fullmatch(r'\d+', s):
                v = int(s)
            elif 'e' in s or 'E' in s:
                v = float(s)
            else:
                v = Decimal(s)
            toks.append(Tok('num', v, i))
            i = m.end()
            continue
        m = _ID.match(sql, i)
        if m:
            toks.append(Tok('id', m.group(0), i))
            i = m.end()
            continue
        for op in _OPS:
            if sql.startswith(op, i):
                toks.append(Tok('op', op, i))
                i += len(op)
                break
        else:
            raise SQLSyntaxError(f'unexpected character {c!r} at {i}: {sql[max(0, i - 20):i + 20]!r}')
    toks.append(Tok('eof', None, n))
    return toks
