"""Load the *deployed* batch schema from the working tree.

routines: replay of `batch_database.migrations` (build.yaml order): last CREATE per
TRIGGER/PROCEDURE/FUNCTION wins, DROP removes.  tables: estimated-current.sql CREATE TABLEs
(parsed tolerantly) + ALTER TABLE ... ADD COLUMN of later migrations not yet reflected.
"""
import os
import re

REPO = os.environ.get('VERIF_REPO', '/repo')


def batch_migrations(repo=None):
    repo = repo or REPO
    text = open(os.path.join(repo, 'build.yaml')).read()
    i = text.index('name: batch_database')
    j = text.index('migrations:', i)
    out = []
    for line in text[j:].split('\n')[1:]:
        s = line.strip()
        if s.startswith('- name:') or s.startswith('online:') or s == '':
            continue
        m = re.match(r'script:\s*/io/sql/(\S+)', s)
        if m:
            out.append(m.group(1))
            continue
        break
    return out


def split_statements(sql):
    """Split a mysql client script into statements honouring DELIMITER, strings and comments."""
    stmts = []
    delim = ';'
    buf = []
    i = 0
    n = len(sql)
    at_line_start = True
    while i < n:
        if at_line_start:
            m = re.match(r'[ \t]*DELIMITER[ \t]+(\S+)[ \t]*(\n|$)', sql[i:], re.I)
            if m and not ''.join(buf).strip():
                delim = m.group(1)
                i += m.end()
                buf = []
                continue
        c = sql[i]
        at_line_start = c == '\n'
        if c in ('\'', '"', '`'):
            j = i + 1
            while j < n:
                if sql[j] == '\\' and c != '`':
                    j += 2
                    continue
                if sql[j] == c:
                    if j + 1 < n and sql[j + 1] == c:
                        j += 2
                        continue
                    break
                j += 1
            buf.append(sql[i:j + 1])
            i = j + 1
            continue
        if sql.startswith('--', i) and (i + 2 >= n or sql[i + 2] in ' \t\n'):
            j = sql.find('\n', i)
            j = n if j < 0 else j
            i = j
            continue
        if c == '#':
            j = sql.find('\n', i)
            i = n if j < 0 else j
            continue
        if sql.startswith('/*', i):
            j = sql.find('*/', i + 2)
            i = n if j < 0 else j + 2
            continue
        if sql.startswith(delim, i):
            s = ''.join(buf).strip()
            if s:
                stmts.append(s)
            buf = []
            i += len(delim)
            continue
        buf.append(c)
        i += 1
    s = ''.join(buf).strip()
    if s:
        stmts.append(s)
    return stmts


_ROUTINE = re.compile(r'^(CREATE|DROP)\s+(?:DEFINER\s*=\s*\S+\s+)?(TRIGGER|PROCEDURE|FUNCTION)\s+(?:IF\s+(?:NOT\s+)?EXISTS\s+)?`?(\w+)`?', re.I)


def _split_leading_drops(st):
    # inside a `DELIMITER $$` region some migrations write `DROP ... IF EXISTS x;` followed by the
    # CREATE in the same chunk; the mysql client sends both as one multi-statement query
    out = []
    while True:
        m = re.match(r'^(DROP\s+(?:TRIGGER|PROCEDURE|FUNCTION)\s+(?:IF\s+EXISTS\s+)?`?\w+`?)\s*;\s*(\S.*)$', st, re.I | re.S)
        if not m:
            break
        out.append(m.group(1))
        st = m.group(2)
    out.append(st)
    return out


def statements_of(sql):
    out = []
    for st in split_statements(sql):
        out.extend(_split_leading_drops(st))
    return out


def final_routines(repo=None):
    """{(kind, name): (sql_text, migration_file)} after replaying all migrations."""
    repo = repo or REPO
    out = {}
    for fn in batch_migrations(repo):
        if not fn.endswith('.sql'):
            continue
        sql = open(os.path.join(repo, 'batch', 'sql', fn)).read()
        for st in statements_of(sql):
            m = _ROUTINE.match(st)
            if not m:
                continue
            verb, kind, name = m.group(1).upper(), m.group(2).upper(), m.group(3)
            if verb == 'DROP':
                out.pop((kind, name), None)
            else:
                out[(kind, name)] = (st, fn)
    return out


if __name__ == '__main__':
    r = final_routines()
    for (kind, name), (st, fn) in sorted(r.items()):
        print(kind, name, fn, len(st.split('\n')))
