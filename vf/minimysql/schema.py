"""Tables, keys, foreign keys; tolerant DDL reader for batch/sql/estimated-current.sql + later ALTERs."""
import os
import re

from .loader import REPO, batch_migrations, split_statements
from .values import SqlType, Unsupported, ci_key


class Column:
    __slots__ = ('name', 'type', 'nullable', 'default', 'has_default', 'auto_inc', 'cs')

    def __init__(self, name, typ, nullable=True, default=None, has_default=False, auto_inc=False, cs=False):
        self.name = name
        self.type = typ
        self.nullable = nullable
        self.default = default
        self.has_default = has_default
        self.auto_inc = auto_inc
        self.cs = cs  # case/accent sensitive collation


class Table:
    def __init__(self, name):
        self.name = name
        self.columns = {}  # lower name -> Column (ordered)
        self.pk = None
        self.uniques = []  # list of tuple(colnames); pk first
        self.unique_names = []
        self.fks = []  # (cols, ref_table, ref_cols, on_delete)
        self.rows = []
        self.uidx = []  # parallel to uniques: dict key -> row
        self.version = 0
        self.auto_next = 1
        self._hidx = {}  # cols -> (version, dict)
        self.children = []  # (child_table, cols, ref_cols, on_delete) filled by Database.link()

    def colnames(self):
        return list(self.columns)

    def norm_key(self, cols, row):
        out = []
        for c in cols:
            v = row[c]
            if v is None:
                return None  # NULL never conflicts in a unique key
            if isinstance(v, str) and not self.columns[c].cs:
                v = ci_key(v)
            out.append(v)
        return tuple(out)

    def pk_get(self, *vals):
        """row with this primary key (values normalised by column collation) or None"""
        key = []
        for c, v in zip(self.uniques[0], vals):
            if isinstance(v, str) and not self.columns[c].cs:
                v = ci_key(v)
            key.append(v)
        return self.uidx[0].get(tuple(key))

    def hash_index(self, cols):
        """non-unique hash index on normalised column values; rebuilt lazily when the table changed"""
        ent = self._hidx.get(cols)
        if ent is not None and ent[0] == self.version:
            return ent[1]
        idx = {}
        columns = self.columns
        cs = [columns[c].cs for c in cols]
        for r in self.rows:
            key = []
            for c, s in zip(cols, cs):
                v = r[c]
                if isinstance(v, str) and not s:
                    v = ci_key(v)
                key.append(v)
            idx.setdefault(tuple(key), []).append(r)
        self._hidx[cols] = (self.version, idx)
        return idx

    # low-level mutations (no checks, no triggers, no undo): used by the engine and by undo
    def raw_insert(self, row, pos=None):
        if pos is None or pos >= len(self.rows):
            self.rows.append(row)
        else:
            self.rows.insert(pos, row)
        for cols, idx in zip(self.uniques, self.uidx):
            k = self.norm_key(cols, row)
            if k is not None:
                idx[k] = row
        self.version += 1

    def raw_delete(self, row):
        for i, r in enumerate(self.rows):
            if r is row:
                pos = i
                break
        else:
            raise AssertionError('row not in table')
        del self.rows[pos]
        for cols, idx in zip(self.uniques, self.uidx):
            k = self.norm_key(cols, row)
            if k is not None and idx.get(k) is row:
                del idx[k]
        self.version += 1
        return pos

    def raw_update(self, row, newvals):
        for cols, idx in zip(self.uniques, self.uidx):
            if any(c in newvals for c in cols):
                k = self.norm_key(cols, row)
                if k is not None and idx.get(k) is row:
                    del idx[k]
        row.update(newvals)
        for cols, idx in zip(self.uniques, self.uidx):
            if any(c in newvals for c in cols):
                k = self.norm_key(cols, row)
                if k is not None:
                    idx[k] = row
        self.version += 1


_COLDEF = re.compile(r'^`?(\w+)`?\s+(\w+)\s*(\(([^)]*)\))?(.*)$', re.S)


def _split_top(s):
    out = []
    depth = 0
    cur = []
    q = None
    for ch in s:
        if q:
            cur.append(ch)
            if ch == q:
                q = None
            continue
        if ch in '\'"`':
            q = ch
            cur.append(ch)
            continue
        if ch == '(':
            depth += 1
        elif ch == ')':
            depth -= 1
        if ch == ',' and depth == 0:
            out.append(''.join(cur).strip())
            cur = []
        else:
            cur.append(ch)
    if ''.join(cur).strip():
        out.append(''.join(cur).strip())
    return out


def _cols_list(s):
    return tuple(re.sub(r'\(\d+\)', '', c).strip().strip('`').lower() for c in s.split(','))


def parse_column_def(text):
    m = _COLDEF.match(text.strip())
    if not m:
        raise Unsupported(f'column definition {text!r}')
    name, tname, _, targs, rest = m.groups()
    args = None
    if targs is not None:
        args = [a.strip().strip('\'"') for a in targs.split(',')]
    typ = SqlType(tname, args)
    up = rest.upper()
    nullable = 'NOT NULL' not in up
    auto = 'AUTO_INCREMENT' in up
    cs = bool(re.search(r'COLLATE\s+\w+_(AS_CS|BIN)\b', up))
    has_default = False
    default = None
    dm = re.search(r"DEFAULT\s+('(?:[^']*)'|\"(?:[^\"]*)\"|[\w.+-]+)", rest, re.I)
    if dm:
        has_default = True
        d = dm.group(1)
        if d.upper() == 'NULL':
            default = None
        elif d.upper() == 'TRUE':
            default = 1
        elif d.upper() == 'FALSE':
            default = 0
        elif d.upper().startswith('CURRENT_TIMESTAMP'):
            default = None
        elif d[0] in '\'"':
            default = typ.convert(d[1:-1])
        else:
            default = typ.convert(d)
    unique = bool(re.search(r'\bUNIQUE\b', up))
    primary = bool(re.search(r'\bPRIMARY\s+KEY\b', up))
    return Column(name.lower(), typ, nullable, default, has_default, auto, cs), unique, primary


def parse_create_table(stmt, tables):
    m = re.match(r'CREATE\s+TABLE\s+(?:IF\s+NOT\s+EXISTS\s+)?`?(\w+)`?\s*\((.*)\)\s*([^)]*)$', stmt, re.S | re.I)
    if not m:
        raise Unsupported('CREATE TABLE form: ' + stmt[:80])
    name = m.group(1).lower()
    t = Table(name)
    body = m.group(2)
    items = _split_top(body)
    # tolerate the missing comma in estimated-current.sql (attempt_resources): split "x\n  PRIMARY KEY"
    fixed = []
    for it in items:
        mm = re.search(r'\n\s*(PRIMARY\s+KEY\s*\()', it, re.I)
        if mm and not re.match(r'\s*PRIMARY', it, re.I):
            fixed.append(it[:mm.start()].strip())
            fixed.append(it[mm.start():].strip())
        else:
            fixed.append(it)
    for it in fixed:
        up = it.upper().lstrip()
        if up.startswith('PRIMARY KEY'):
            cols = _cols_list(re.search(r'\((.*)\)', it, re.S).group(1))
            t.pk = cols
        elif up.startswith('UNIQUE'):
            cols = _cols_list(re.search(r'\((.*)\)', it, re.S).group(1))
            t.uniques.append(cols)
            t.unique_names.append(cols[0])
        elif up.startswith('FOREIGN KEY') or up.startswith('CONSTRAINT'):
            fm = re.search(r'FOREIGN\s+KEY\s*\(([^)]*)\)\s*REFERENCES\s+`?(\w+)`?\s*\(([^)]*)\)(.*)$', it, re.S | re.I)
            if not fm:
                raise Unsupported('constraint ' + it[:60])
            on_delete = 'RESTRICT'
            od = re.search(r'ON\s+DELETE\s+(CASCADE|RESTRICT|SET\s+NULL|NO\s+ACTION)', fm.group(4), re.I)
            if od:
                on_delete = re.sub(r'\s+', ' ', od.group(1).upper())
            t.fks.append((_cols_list(fm.group(1)), fm.group(2).lower(), _cols_list(fm.group(3)), on_delete))
        elif up.startswith('KEY ') or up.startswith('INDEX ') or up.startswith('FULLTEXT'):
            pass
        else:
            col, unique, primary = parse_column_def(it)
            t.columns[col.name] = col
            if unique:
                t.uniques.append((col.name,))
                t.unique_names.append(col.name)
            if primary:
                t.pk = (col.name,)
    if t.pk:
        t.uniques.insert(0, t.pk)
        t.unique_names.insert(0, 'PRIMARY')
        for c in t.pk:
            t.columns[c].nullable = False
    t.uidx = [dict() for _ in t.uniques]
    tables[name] = t
    return t


def load_tables(repo=None):
    """{name: Table} from estimated-current.sql, then ALTER TABLE ... ADD COLUMN of every migration for
    columns the estimate lacks."""
    repo = repo or REPO
    tables = {}
    sql = open(os.path.join(repo, 'batch', 'sql', 'estimated-current.sql')).read()
    seed_inserts = []
    for st in split_statements(sql):
        up = st.upper().lstrip()
        if up.startswith('CREATE TABLE'):
            parse_create_table(st, tables)
        elif up.startswith('DROP TABLE'):
            m = re.match(r'DROP\s+TABLE\s+(?:IF\s+EXISTS\s+)?`?(\w+)`?', st, re.I)
            tables.pop(m.group(1).lower(), None)
        elif up.startswith('CREATE UNIQUE INDEX'):
            m = re.match(r'CREATE\s+UNIQUE\s+INDEX\s+`?(\w+)`?\s+ON\s+`?(\w+)`?\s*\((.*)\)', st, re.S | re.I)
            t = tables[m.group(2).lower()]
            t.uniques.append(_cols_list(m.group(3)))
            t.unique_names.append(m.group(1))
            t.uidx.append({})
        elif up.startswith('INSERT'):
            seed_inserts.append(st)
    ours = set()
    for fn in batch_migrations(repo):
        if not fn.endswith('.sql'):
            continue
        msql = open(os.path.join(repo, 'batch', 'sql', fn)).read()
        for st in split_statements(msql):
            m = re.match(r'ALTER\s+TABLE\s+`?(\w+)`?\s+(.*)$', st, re.S | re.I)
            if not m:
                continue
            t = tables.get(m.group(1).lower())
            if t is None:
                continue
            for clause in _split_top(m.group(2)):
                cl = clause.strip()
                dm = re.match(r'DROP\s+(?:COLUMN\s+)?`?(\w+)`?\s*$', cl, re.I)
                if dm and not re.match(r'DROP\s+(PRIMARY|INDEX|KEY|FOREIGN|CONSTRAINT)\b', cl, re.I):
                    cn = dm.group(1).lower()
                    if (t.name, cn) in ours:
                        t.columns.pop(cn, None)
                        ours.discard((t.name, cn))
                    continue
                cm = re.match(r'(?:CHANGE|RENAME)\s+COLUMN\s+`?(\w+)`?\s+(?:TO\s+)?`?(\w+)`?', cl, re.I)
                if cm:
                    cn = cm.group(1).lower()
                    if (t.name, cn) in ours:
                        t.columns.pop(cn, None)
                        ours.discard((t.name, cn))
                    continue
                if re.match(r'ADD\s+(PRIMARY|UNIQUE|INDEX|KEY|FOREIGN|CONSTRAINT|FULLTEXT)\b', cl, re.I):
                    continue
                am = re.match(r'ADD\s+(?:COLUMN\s+)?(`?\w+`?\s+\w+.*)$', cl, re.S | re.I)
                if not am:
                    continue
                body = re.sub(r'\s+(AFTER\s+`?\w+`?|FIRST)\s*$', '', am.group(1), flags=re.I)
                try:
                    col, unique, primary = parse_column_def(body)
                except Unsupported:
                    continue
                if col.name not in t.columns:
                    t.columns[col.name] = col
                    ours.add((t.name, col.name))
    added = sorted(ours)
    _apply_migration_primary_keys(tables, repo)
    return tables, added, seed_inserts


def migration_primary_keys(repo=None):
    """{table: primary-key columns or None} obtained by replaying, in build.yaml order, the statements of the migrations that
    decide a table's primary key: CREATE TABLE, RENAME TABLE, DROP TABLE, ALTER TABLE ... DROP PRIMARY KEY / ADD PRIMARY KEY /
    RENAME TO.  The migrations are the deployed truth; estimated-current.sql is only a summary."""
    repo = repo or REPO
    pk = {}
    for fn in batch_migrations(repo):
        if not fn.endswith('.sql'):
            continue
        msql = open(os.path.join(repo, 'batch', 'sql', fn)).read()
        for st in split_statements(msql):
            up = st.upper().lstrip()
            if up.startswith('CREATE TABLE'):
                tmp = {}
                try:
                    parse_create_table(st, tmp)
                except Exception:  # a table the tolerant parser cannot read keeps the summary's key
                    continue
                for n, t in tmp.items():
                    pk[n] = tuple(t.pk) if t.pk else None
            elif up.startswith('RENAME TABLE'):
                for a, b in re.findall(r'`?(\w+)`?\s+TO\s+`?(\w+)`?', st, re.I):
                    if a.lower() in pk:
                        pk[b.lower()] = pk.pop(a.lower())
            elif up.startswith('DROP TABLE'):
                m = re.match(r'DROP\s+TABLE\s+(?:IF\s+EXISTS\s+)?`?(\w+)`?', st, re.I)
                if m:
                    pk.pop(m.group(1).lower(), None)
            else:
                m = re.match(r'ALTER\s+TABLE\s+`?(\w+)`?\s+(.*)$', st, re.S | re.I)
                if not m:
                    continue
                tn = m.group(1).lower()
                for cl in _split_top(m.group(2)):
                    cl = cl.strip()
                    if re.match(r'DROP\s+PRIMARY\s+KEY', cl, re.I):
                        pk[tn] = None
                    am = re.match(r'ADD\s+PRIMARY\s+KEY\s*\((.*?)\)', cl, re.I | re.S)
                    if am:
                        pk[tn] = tuple(_cols_list(am.group(1)))
                    rm = re.match(r'RENAME\s+(?:TO\s+)?`?(\w+)`?\s*$', cl, re.I)
                    if rm and tn in pk:
                        pk[rm.group(1).lower()] = pk.pop(tn)
                        tn = rm.group(1).lower()
    return pk


def _apply_migration_primary_keys(tables, repo):
    for n, cols in migration_primary_keys(repo).items():
        t = tables.get(n)
        if t is None or not cols or any(c not in t.columns for c in cols):
            continue
        cur = tuple(t.pk) if t.pk else None
        if cur == tuple(cols):
            continue
        # the migrations leave this table with another primary key than the summary says
        if t.pk:
            t.uniques.pop(0)
            t.unique_names.pop(0)
        t.pk = tuple(cols)
        t.uniques.insert(0, t.pk)
        t.unique_names.insert(0, 'PRIMARY')
        for c in t.pk:
            t.columns[c].nullable = False
        t.uidx = [dict() for _ in t.uniques]
