"""Expression compiler: AST -> closures f(ctx) -> value, with compile-time name resolution.

Name resolution order for an unqualified identifier (MySQL 8.0 manual 13.6.4.2): routine local
variable / parameter, then columns of the current query level, then outer query levels, then
(for GROUP BY / HAVING / ORDER BY) select-list aliases.
"""
import datetime
import json
import math
import re
from decimal import Decimal

import pymysql

from .values import Unsupported, arith, bitop, ci_key, compare, like_to_regex, to_date, to_number, truth, SqlType

OperationalError = pymysql.err.OperationalError

AGGREGATES = {'SUM', 'COUNT', 'MIN', 'MAX', 'AVG', 'JSON_OBJECTAGG', 'JSON_ARRAYAGG', 'GROUP_CONCAT', 'BIT_OR', 'BIT_AND', 'ANY_VALUE_AGG'}


class Source:
    __slots__ = ('alias', 'cols', 'table', 'index')

    def __init__(self, alias, cols, table, index):
        self.alias = alias  # lower
        self.cols = cols  # dict lower -> (name, cs)
        self.table = table  # Table or None (derived)
        self.index = index


class Scope:
    def __init__(self, parent=None, routine=None):
        self.sources = []
        self.parent = parent
        self.routine = routine if routine is not None else (parent.routine if parent else None)
        self.aliases = {}  # lower alias -> compiled fn (select list)
        self.using = set()
        self.allow_agg = False
        self.agg_used = False
        self.values_row = False  # inside ON DUPLICATE KEY UPDATE: VALUES(col) allowed

    def add(self, alias, cols, table=None):
        s = Source(alias.lower(), cols, table, len(self.sources))
        self.sources.append(s)
        return s


class RoutineInfo:
    """compile-time view of a routine activation: variable names/types, NEW/OLD table for triggers"""

    def __init__(self, name, kind, trigger_table=None):
        self.name = name
        self.kind = kind
        self.vars = {}  # lower -> SqlType
        self.trigger_table = trigger_table


class Ctx:
    __slots__ = ('rows', 'outer', 'frame', 'conn', 'grp', 'ins')

    def __init__(self, rows, outer, frame, conn, grp=None, ins=None):
        self.rows = rows
        self.outer = outer
        self.frame = frame
        self.conn = conn
        self.grp = grp
        self.ins = ins  # would-be-inserted row for VALUES(col)


class Compiler:
    def __init__(self, db):
        self.db = db

    # ---- name resolution -------------------------------------------------------------------
    def resolve_col(self, q, name, scope, allow_alias=False):
        """-> closure"""
        lname = name.lower()
        ri = scope.routine
        if q is not None:
            lq = q.lower()
            if ri is not None and ri.trigger_table is not None and lq in ('new', 'old'):
                t = ri.trigger_table
                if lname not in t.columns:
                    raise OperationalError(1054, f"Unknown column '{name}' in '{q}'")
                cs = t.columns[lname].cs
                if lq == 'new':
                    def f(ctx, lname=lname):
                        return ctx.frame.new[lname]
                else:
                    def f(ctx, lname=lname):
                        return ctx.frame.old[lname]
                f.cs = cs
                return f
            up = 0
            sc = scope
            while sc is not None:
                for s in sc.sources:
                    if s.alias == lq:
                        if lname not in s.cols:
                            raise OperationalError(1054, f"Unknown column '{q}.{name}' in 'field list'")
                        return self._col_closure(up, s.index, lname, s.cols[lname][1])
                sc = sc.parent
                up += 1
            raise OperationalError(1054, f"Unknown column '{q}.{name}' in 'field list'")
        if allow_alias == 'first' and lname in scope.aliases:
            return scope.aliases[lname]
        if allow_alias == 'having' and lname in scope.aliases and lname not in getattr(scope, 'group_cols', ()):
            # HAVING: a GROUP BY column wins, then a select-list alias, then FROM columns (MySQL 8.0 manual 13.2.13 / B.3.4.4)
            return scope.aliases[lname]
        if ri is not None and lname in ri.vars:
            def f(ctx, lname=lname):
                return ctx.frame.vars[lname]
            f.cs = False
            f.is_var = True
            return f
        up = 0
        sc = scope
        first = True
        while sc is not None:
            hits = [s for s in sc.sources if lname in s.cols]
            if hits:
                if len(hits) > 1 and lname not in sc.using:
                    if allow_alias and first and lname in sc.aliases:
                        # GROUP BY / HAVING / ORDER BY: an ambiguous FROM name falls back to the select item
                        # of that name (MySQL resolves it there, with warning 1052)
                        return sc.aliases[lname]
                    raise OperationalError(1052, f"Column '{name}' in field list is ambiguous")
                s = hits[0]
                return self._col_closure(up, s.index, lname, s.cols[lname][1])
            if first and allow_alias and lname in sc.aliases:
                return sc.aliases[lname]
            first = False
            sc = sc.parent
            up += 1
        if allow_alias and lname in scope.aliases:
            return scope.aliases[lname]
        raise OperationalError(1054, f"Unknown column '{name}' in 'field list'")

    @staticmethod
    def _col_closure(up, idx, lname, cs):
        if up == 0:
            def f(ctx):
                r = ctx.rows[idx]
                return None if r is None else r[lname]
        elif up == 1:
            def f(ctx):
                r = ctx.outer.rows[idx]
                return None if r is None else r[lname]
        else:
            def f(ctx):
                c = ctx
                for _ in range(up):
                    c = c.outer
                r = c.rows[idx]
                return None if r is None else r[lname]
        f.cs = cs
        f.colref = (up, idx, lname)
        return f

    # ---- static analysis helpers -----------------------------------------------------------
    def has_aggregate(self, node):
        if not isinstance(node, tuple) or not node:
            return False
        tag = node[0]
        if tag == 'func' and node[1] in AGGREGATES:
            return True
        if tag in ('subq', 'exists'):
            return False
        if tag == 'in' and isinstance(node[2], tuple):
            return self.has_aggregate(node[1])
        for x in node[1:]:
            if isinstance(x, tuple) and self.has_aggregate(x):
                return True
            if isinstance(x, list):
                for y in x:
                    if isinstance(y, tuple) and self.has_aggregate(y):
                        return True
                    if isinstance(y, tuple) and len(y) == 2 and any(isinstance(z, tuple) and self.has_aggregate(z) for z in y):
                        return True
        return False

    def refs_level0(self, node, scope):
        """set of source indexes of the *current* level referenced by node, or None if unknown
        (subquery / unresolvable)."""
        out = set()

        def walk(n):
            if not isinstance(n, tuple) or not n:
                return True
            tag = n[0]
            if tag in ('subq', 'exists'):
                return False
            if tag == 'in' and isinstance(n[2], tuple):
                return False
            if tag == 'col':
                try:
                    f = self.resolve_col(n[1], n[2], scope, allow_alias=False)
                except Exception:
                    return False
                ref = getattr(f, 'colref', None)
                if ref is not None and ref[0] == 0:
                    out.add(ref[1])
                return True
            if tag == 'star':
                return False
            for x in n[1:]:
                if isinstance(x, tuple):
                    if not walk(x):
                        return False
                elif isinstance(x, list):
                    for y in x:
                        if isinstance(y, tuple):
                            if y and isinstance(y[0], str):
                                if not walk(y):
                                    return False
                            else:
                                for z in y:
                                    if isinstance(z, tuple) and not walk(z):
                                        return False
            return True

        return out if walk(node) else None

    # ---- expressions -----------------------------------------------------------------------
    def expr(self, node, scope, allow_alias=False):
        tag = node[0]
        m = getattr(self, 'c_' + tag, None)
        if m is None:
            raise Unsupported(f'expression node {tag}')
        f = m(node, scope, allow_alias)
        if not hasattr(f, 'cs'):
            f.cs = False
        return f

    def c_lit(self, node, scope, aa):
        v = node[1]
        return lambda ctx: v

    def c_param(self, node, scope, aa):
        key = node[1]

        def f(ctx):
            v = ctx.conn.params[key]
            if isinstance(v, bool):
                return int(v)
            if isinstance(v, (list, tuple, set, frozenset)):
                return tuple(v)
            return v
        return f

    def c_col(self, node, scope, aa):
        return self.resolve_col(node[1], node[2], scope, aa)

    def c_uvar(self, node, scope, aa):
        name = node[1]
        return lambda ctx: ctx.conn.uvars.get(name)

    def c_assign(self, node, scope, aa):
        name = node[1]
        e = self.expr(node[2], scope, aa)

        def f(ctx):
            v = e(ctx)
            ctx.conn.uvars[name] = v
            return v
        return f

    def c_collate(self, node, scope, aa):
        e = self.expr(node[1], scope, aa)
        cs = node[2].endswith('_cs') or node[2].endswith('_bin')
        f = lambda ctx: e(ctx)  # noqa: E731
        f.cs = cs
        return f

    def c_and(self, node, scope, aa):
        a = self.expr(node[1], scope, aa)
        b = self.expr(node[2], scope, aa)

        def f(ctx):
            x = truth(a(ctx))
            if x is False:
                return 0
            y = truth(b(ctx))
            if y is False:
                return 0
            if x is None or y is None:
                return None
            return 1
        return f

    def c_or(self, node, scope, aa):
        a = self.expr(node[1], scope, aa)
        b = self.expr(node[2], scope, aa)

        def f(ctx):
            x = truth(a(ctx))
            if x is True:
                return 1
            y = truth(b(ctx))
            if y is True:
                return 1
            if x is None or y is None:
                return None
            return 0
        return f

    def c_not(self, node, scope, aa):
        a = self.expr(node[1], scope, aa)

        def f(ctx):
            x = truth(a(ctx))
            return None if x is None else int(not x)
        return f

    def c_un(self, node, scope, aa):
        a = self.expr(node[2], scope, aa)
        if node[1] == '-':
            def f(ctx):
                v = a(ctx)
                return None if v is None else -to_number(v)
            return f
        if node[1] == '~':
            def f(ctx):
                v = a(ctx)
                return None if v is None else (~int(to_number(v))) & ((1 << 64) - 1)
            return f
        raise Unsupported('unary ' + node[1])

    def c_bin(self, node, scope, aa):
        op = node[1]
        a = self.expr(node[2], scope, aa)
        b = self.expr(node[3], scope, aa)
        cs = bool(a.cs or b.cs)
        if op in ('=', '<>', '!=', '<', '>', '<=', '>='):
            test = {
                '=': lambda c: c == 0, '<>': lambda c: c != 0, '!=': lambda c: c != 0, '<': lambda c: c < 0,
                '>': lambda c: c > 0, '<=': lambda c: c <= 0, '>=': lambda c: c >= 0,
            }[op]

            def f(ctx):
                c = compare(a(ctx), b(ctx), cs)
                return None if c is None else int(test(c))
            return f
        if op == '<=>':
            def f(ctx):
                x, y = a(ctx), b(ctx)
                if x is None or y is None:
                    return int(x is None and y is None)
                return int(compare(x, y, cs) == 0)
            return f
        if op in ('+', '-', '*', '/', 'DIV', '%', 'MOD'):
            return lambda ctx: arith(op, a(ctx), b(ctx))
        if op in ('&', '|', '^', '<<', '>>'):
            return lambda ctx: bitop(op, a(ctx), b(ctx))
        if op == 'XOR':
            def f(ctx):
                x, y = truth(a(ctx)), truth(b(ctx))
                if x is None or y is None:
                    return None
                return int(x != y)
            return f
        raise Unsupported('binary ' + op)

    def c_is(self, node, scope, aa):
        a = self.expr(node[1], scope, aa)
        what, neg = node[2], node[3]

        def f(ctx):
            v = a(ctx)
            if what == 'NULL':
                r = v is None
            elif what == 'TRUE':
                r = truth(v) is True
            elif what == 'FALSE':
                r = truth(v) is False
            else:
                r = truth(v) is None
            return int(r != neg)
        return f

    def c_between(self, node, scope, aa):
        e = self.expr(node[1], scope, aa)
        lo = self.expr(node[2], scope, aa)
        hi = self.expr(node[3], scope, aa)
        neg = node[4]

        def f(ctx):
            v = e(ctx)
            c1 = compare(v, lo(ctx))
            c2 = compare(v, hi(ctx))
            if c1 is None or c2 is None:
                return None
            r = c1 >= 0 and c2 <= 0
            return int(r != neg)
        return f

    def c_like(self, node, scope, aa):
        e = self.expr(node[1], scope, aa)
        p = self.expr(node[2], scope, aa)
        neg = node[3]
        cs = bool(e.cs or p.cs)
        cache = {}

        def f(ctx):
            v, pat = e(ctx), p(ctx)
            if v is None or pat is None:
                return None
            v, pat = str(v), str(pat)
            if not cs:
                v, pat = ci_key(v), ci_key(pat)
            rx = cache.get(pat)
            if rx is None:
                rx = cache[pat] = like_to_regex(pat)
            return int((rx.fullmatch(v) is not None) != neg)
        return f

    def c_regexp(self, node, scope, aa):
        e = self.expr(node[1], scope, aa)
        p = self.expr(node[2], scope, aa)
        neg = node[3]

        def f(ctx):
            v, pat = e(ctx), p(ctx)
            if v is None or pat is None:
                return None
            return int((re.search(str(pat), str(v), re.I) is not None) != neg)
        return f

    def c_tuple(self, node, scope, aa):
        items = [self.expr(x, scope, aa) for x in node[1]]
        return lambda ctx: tuple(i(ctx) for i in items)

    def c_in(self, node, scope, aa):
        e = self.expr(node[1], scope, aa)
        neg = node[3]
        cs = bool(e.cs)
        if isinstance(node[2], tuple) and node[2][0] == 'select':
            plan = self.select(node[2][1], scope)

            def vals(ctx):
                _, rows = plan.run(ctx, ctx.frame, ctx.conn)
                return [r[0] if len(r) == 1 else tuple(r) for r in rows]
        else:
            items = []
            for x in node[2]:
                if x[0] == 'paramlist':
                    key = x[1]
                    items.append(('list', key))
                else:
                    items.append(('one', self.expr(x, scope, aa)))

            def vals(ctx):
                out = []
                for kind, it in items:
                    if kind == 'list':
                        v = ctx.conn.params[it]
                        if isinstance(v, (list, tuple, set, frozenset)):
                            out.extend(int(x) if isinstance(x, bool) else x for x in v)
                        else:
                            out.append(v)
                    else:
                        out.append(it(ctx))
                return out

        def f(ctx):
            v = e(ctx)
            if v is None:
                return None
            saw_null = False
            for x in vals(ctx):
                c = compare(v, x, cs)
                if c is None:
                    saw_null = True
                elif c == 0:
                    return int(not neg)
            if saw_null:
                return None
            return int(neg)
        return f

    def c_exists(self, node, scope, aa):
        plan = self.select(node[1], scope)

        def f(ctx):
            _, rows = plan.run(ctx, ctx.frame, ctx.conn, limit_hint=1)
            return int(bool(rows))
        return f

    def c_subq(self, node, scope, aa):
        plan = self.select(node[1], scope)

        def f(ctx):
            _, rows = plan.run(ctx, ctx.frame, ctx.conn)
            if not rows:
                return None
            if len(rows) > 1:
                raise OperationalError(1242, 'Subquery returns more than 1 row')
            r = rows[0]
            return r[0] if len(r) == 1 else tuple(r)
        return f

    def c_case(self, node, scope, aa):
        operand = self.expr(node[1], scope, aa) if node[1] is not None else None
        whens = [(self.expr(w, scope, aa), self.expr(t, scope, aa)) for w, t in node[2]]
        els = self.expr(node[3], scope, aa) if node[3] is not None else None

        def f(ctx):
            if operand is not None:
                v = operand(ctx)
                for w, t in whens:
                    if compare(v, w(ctx)) == 0:
                        return t(ctx)
            else:
                for w, t in whens:
                    if truth(w(ctx)):
                        return t(ctx)
            return els(ctx) if els is not None else None
        return f

    def c_cast(self, node, scope, aa):
        e = self.expr(node[1], scope, aa)
        tname, targs = node[2]
        up = tname.upper()
        if up in ('SIGNED', 'UNSIGNED', 'INT', 'INTEGER', 'BIGINT'):
            def f(ctx):
                v = e(ctx)
                if v is None:
                    return None
                n = to_number(v)
                if isinstance(n, float):
                    return int(round(n))
                if isinstance(n, Decimal):
                    return int(n.to_integral_value(rounding='ROUND_HALF_UP'))
                return int(n)
            return f
        if up in ('CHAR', 'VARCHAR', 'NCHAR', 'BINARY'):
            st = SqlType('TEXT')

            def f(ctx):
                v = e(ctx)
                return None if v is None else st.convert(v)
            f.cs = up == 'BINARY'
            return f
        if up == 'DATE':
            return lambda ctx: to_date(e(ctx))
        if up in ('DOUBLE', 'FLOAT', 'REAL'):
            return lambda ctx: (None if (v := e(ctx)) is None else float(to_number(v)))
        if up in ('DECIMAL', 'NUMERIC'):
            return lambda ctx: (None if (v := e(ctx)) is None else Decimal(str(to_number(v))))
        if up == 'JSON':
            return lambda ctx: e(ctx)
        raise Unsupported('CAST AS ' + up)

    def c_values(self, node, scope, aa):
        col = node[1].lower()

        def f(ctx):
            c = ctx
            while c is not None and c.ins is None:
                c = c.outer
            if c is None:
                return None
            return c.ins.get(col)
        return f

    def c_star(self, node, scope, aa):
        raise Unsupported('* outside select list / COUNT(*)')

    # ---- functions -------------------------------------------------------------------------
    def c_func(self, node, scope, aa):
        name, args, distinct, star = node[1], node[2], node[3], node[4]
        if name in AGGREGATES:
            return self.aggregate(node, scope, aa)
        routine = self.db.routines.get(('FUNCTION', name.lower()))
        cargs = [self.expr(a, scope, aa) for a in args]
        if routine is not None:
            db = self.db

            def f(ctx):
                return db.call_function(routine, [a(ctx) for a in cargs], ctx.conn)
            return f
        fn = getattr(self, 'f_' + name, None)
        if fn is None:
            raise Unsupported(f'function {name}')
        return fn(cargs)

    def f_COALESCE(self, a):
        def f(ctx):
            for x in a:
                v = x(ctx)
                if v is not None:
                    return v
            return None
        f.cs = any(x.cs for x in a)
        return f

    def f_IFNULL(self, a):
        return self.f_COALESCE(a)

    def f_NULLIF(self, a):
        def f(ctx):
            x, y = a[0](ctx), a[1](ctx)
            return None if compare(x, y) == 0 else x
        return f

    def f_IF(self, a):
        def f(ctx):
            return a[1](ctx) if truth(a[0](ctx)) else a[2](ctx)
        return f

    def f_GREATEST(self, a):
        def f(ctx):
            vs = [x(ctx) for x in a]
            if any(v is None for v in vs):
                return None
            best = vs[0]
            for v in vs[1:]:
                if compare(v, best) > 0:
                    best = v
            return best
        return f

    def f_LEAST(self, a):
        def f(ctx):
            vs = [x(ctx) for x in a]
            if any(v is None for v in vs):
                return None
            best = vs[0]
            for v in vs[1:]:
                if compare(v, best) < 0:
                    best = v
            return best
        return f

    def f_FLOOR(self, a):
        def f(ctx):
            v = a[0](ctx)
            return None if v is None else int(math.floor(to_number(v)))
        return f

    def f_CEIL(self, a):
        def f(ctx):
            v = a[0](ctx)
            return None if v is None else int(math.ceil(to_number(v)))
        return f

    f_CEILING = f_CEIL

    def f_ROUND(self, a):
        def f(ctx):
            v = a[0](ctx)
            if v is None:
                return None
            n = to_number(v)
            d = int(a[1](ctx)) if len(a) > 1 else 0
            q = Decimal(str(n)).quantize(Decimal(1).scaleb(-d), rounding='ROUND_HALF_UP')
            return int(q) if d <= 0 and not isinstance(n, float) else (float(q) if isinstance(n, float) else q)
        return f

    def f_ABS(self, a):
        return lambda ctx: (None if (v := a[0](ctx)) is None else abs(to_number(v)))

    def f_RAND(self, a):
        return lambda ctx: ctx.conn.db.rand()

    def f_ROW_COUNT(self, a):
        return lambda ctx: ctx.conn.row_count

    def f_LAST_INSERT_ID(self, a):
        return lambda ctx: ctx.conn.last_insert_id

    def f_UTC_DATE(self, a):
        return lambda ctx: ctx.conn.db.utc_date()

    f_CURRENT_DATE = f_UTC_DATE
    f_CURDATE = f_UTC_DATE

    def f_UNIX_TIMESTAMP(self, a):
        return lambda ctx: int(ctx.conn.db.now())

    def f_NOW(self, a):
        return lambda ctx: datetime.datetime.utcfromtimestamp(ctx.conn.db.now())

    f_CURRENT_TIMESTAMP = f_NOW
    f_UTC_TIMESTAMP = f_NOW

    def f_CONCAT(self, a):
        st = SqlType('TEXT')

        def f(ctx):
            vs = [x(ctx) for x in a]
            if any(v is None for v in vs):
                return None
            return ''.join(st.convert(v) for v in vs)
        return f

    def f_LOWER(self, a):
        return lambda ctx: (None if (v := a[0](ctx)) is None else str(v).lower())

    def f_UPPER(self, a):
        return lambda ctx: (None if (v := a[0](ctx)) is None else str(v).upper())

    def f_LENGTH(self, a):
        return lambda ctx: (None if (v := a[0](ctx)) is None else len(str(v).encode('utf-8')))

    def f_CHAR_LENGTH(self, a):
        return lambda ctx: (None if (v := a[0](ctx)) is None else len(str(v)))

    def f_BINARY(self, a):
        f = lambda ctx: a[0](ctx)  # noqa: E731
        f.cs = True
        return f

    def f_BIT_COUNT(self, a):
        return lambda ctx: (None if (v := a[0](ctx)) is None else bin(int(to_number(v)) & ((1 << 64) - 1)).count('1'))

    def f_DATE(self, a):
        return lambda ctx: to_date(a[0](ctx))

    def f_ANY_VALUE(self, a):
        return a[0]

    def f_JSON_OBJECT(self, a):
        def f(ctx):
            vs = [x(ctx) for x in a]
            return json.dumps({str(vs[i]): _json_val(vs[i + 1]) for i in range(0, len(vs), 2)})
        return f

    def f_JSON_QUOTE(self, a):
        return lambda ctx: (None if (v := a[0](ctx)) is None else json.dumps(str(v)))

    def f_JSON_CONTAINS(self, a):
        def contains(target, cand):
            if isinstance(target, list):
                if isinstance(cand, list):
                    return all(contains(target, c) for c in cand)
                return any(contains(t, cand) for t in target)
            if isinstance(target, dict):
                return isinstance(cand, dict) and all(k in target and contains(target[k], v) for k, v in cand.items())
            return target == cand

        def f(ctx):
            t, c = a[0](ctx), a[1](ctx)
            if t is None or c is None:
                return None
            try:
                return int(contains(json.loads(t) if isinstance(t, str) else t, json.loads(c) if isinstance(c, str) else c))
            except ValueError:
                raise OperationalError(3141, 'Invalid JSON text in argument to function json_contains')
        return f

    def f_JSON_EXTRACT(self, a):
        def f(ctx):
            doc, path = a[0](ctx), a[1](ctx)
            if doc is None or path is None:
                return None
            try:
                v = json.loads(doc) if isinstance(doc, str) else doc
            except ValueError:
                raise OperationalError(3141, 'Invalid JSON text in argument to function json_extract')
            for m in re.finditer(r'\[(\d+)\]|\."?([A-Za-z_][A-Za-z0-9_]*)"?', path[1:] if path.startswith('$') else path):
                if m.group(1) is not None:
                    i = int(m.group(1))
                    if not isinstance(v, list):
                        v = [v]  # MySQL autowraps a scalar/object as a one-element array for [0]
                    if i >= len(v):
                        return None
                    v = v[i]
                else:
                    if not isinstance(v, dict) or m.group(2) not in v:
                        return None
                    v = v[m.group(2)]
            if v is None:
                return 'null'  # JSON null literal, which IS NOT NULL in SQL
            return v if isinstance(v, (int, float)) and not isinstance(v, bool) else json.dumps(v)
        return f

    # ---- aggregates ------------------------------------------------------------------------
    def aggregate(self, node, scope, aa):
        name, args, distinct, star = node[1], node[2], node[3], node[4]
        # aggregates belong to the nearest enclosing query level that allows them
        if not scope.allow_agg:
            raise OperationalError(1111, 'Invalid use of group function')
        scope.agg_used = True
        scope.allow_agg = False  # no nested aggregates
        try:
            cargs = [self.expr(a, scope, False) for a in args]
        finally:
            scope.allow_agg = True

        def group_values(ctx, fn):
            out = []
            for rows in ctx.grp:
                sub = Ctx(rows, ctx.outer, ctx.frame, ctx.conn)
                out.append(fn(sub))
            return out

        if name == 'COUNT':
            if star:
                return lambda ctx: len(ctx.grp)

            def f(ctx):
                vals = [v for v in group_values(ctx, cargs[0]) if v is not None]
                if distinct:
                    return len({ci_key(v) if isinstance(v, str) else v for v in vals})
                return len(vals)
            return f
        if name == 'SUM':
            def f(ctx):
                vals = [to_number(v) for v in group_values(ctx, cargs[0]) if v is not None]
                if not vals:
                    return None
                if any(isinstance(v, float) for v in vals):
                    return float(sum(float(v) for v in vals))
                return Decimal(sum(Decimal(v) for v in vals))
            return f
        if name == 'AVG':
            def f(ctx):
                vals = [to_number(v) for v in group_values(ctx, cargs[0]) if v is not None]
                if not vals:
                    return None
                if any(isinstance(v, float) for v in vals):
                    return sum(float(v) for v in vals) / len(vals)
                return Decimal(sum(Decimal(v) for v in vals)) / Decimal(len(vals))
            return f
        if name in ('MIN', 'MAX'):
            sign = 1 if name == 'MAX' else -1

            def f(ctx):
                best = None
                for v in group_values(ctx, cargs[0]):
                    if v is None:
                        continue
                    if best is None or compare(v, best) * sign > 0:
                        best = v
                return best
            return f
        if name == 'JSON_OBJECTAGG':
            def f(ctx):
                ks = group_values(ctx, cargs[0])
                vs = group_values(ctx, cargs[1])
                if not ks:
                    return None
                out = {}
                for k, v in zip(ks, vs):
                    if k is None:
                        raise OperationalError(3158, 'JSON documents may not contain NULL member names.')
                    out[str(k)] = _json_val(v)
                return json.dumps(out)
            return f
        if name == 'JSON_ARRAYAGG':
            def f(ctx):
                vs = group_values(ctx, cargs[0])
                if not vs:
                    return None
                return json.dumps([_json_val(v) for v in vs])
            return f
        if name == 'GROUP_CONCAT':
            def f(ctx):
                vs = [str(v) for v in group_values(ctx, cargs[0]) if v is not None]
                return ','.join(vs) if vs else None
            return f
        if name == 'BIT_OR':
            def f(ctx):
                r = 0
                for v in group_values(ctx, cargs[0]):
                    if v is not None:
                        r |= int(to_number(v))
                return r
            return f
        raise Unsupported('aggregate ' + name)

    # select() is provided by select.py (mixed in)


def _json_val(v):
    if isinstance(v, Decimal):
        return int(v) if v == v.to_integral_value() else float(v)
    if isinstance(v, (datetime.date, datetime.datetime)):
        return v.isoformat()
    return v
