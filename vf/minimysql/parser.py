"""Recursive-descent parser for the MySQL subset (statements, expressions, routine bodies).

Expression AST (tuples):
  ('lit', v) ('param', key) ('col', qualifier|None, name) ('uvar', name) ('assign', name, e)
  ('func', NAME, [args], distinct, star) ('bin', op, a, b) ('un', op, a) ('and', a, b) ('or', a, b) ('not', a)
  ('in', e, [items]|('select', S), negated) ('exists', S) ('subq', S) ('case', operand|None, [(w, t)], else|None)
  ('cast', e, typename) ('between', e, lo, hi, neg) ('like', e, pat, neg) ('is', e, 'NULL'|'TRUE'|'FALSE', neg)
  ('tuple', [items]) ('values', colname) ('star', qualifier|None)
"""
from .lexer import SQLSyntaxError, Tok, tokenize  # noqa: F401

_CMP = {'=', '<=>', '>=', '>', '<=', '<', '<>', '!='}
_RESERVED_STOP = {
    'FROM', 'WHERE', 'GROUP', 'HAVING', 'ORDER', 'LIMIT', 'UNION', 'ON', 'USING', 'JOIN', 'INNER', 'LEFT', 'RIGHT', 'CROSS',
    'STRAIGHT_JOIN', 'SET', 'VALUES', 'INTO', 'FOR', 'LOCK', 'THEN', 'ELSE', 'ELSEIF', 'END', 'WHEN', 'AND', 'OR', 'XOR', 'NOT', 'AS',
    'IS', 'IN', 'LIKE', 'BETWEEN', 'DO', 'DESC', 'ASC', 'DIV', 'MOD', 'SELECT', 'WINDOW', 'OFFSET', 'FORCE', 'USE', 'IGNORE', 'NATURAL',
    'LATERAL', 'REGEXP', 'COLLATE', 'DUPLICATE', 'INTERVAL', 'RETURNING',
}


class Select:
    __slots__ = ('ctes', 'distinct', 'columns', 'frm', 'where', 'group_by', 'having', 'order_by', 'limit', 'offset', 'lock', 'into',
                 'unions', 'uid')
    _n = 0

    def __init__(self):
        self.ctes = []
        self.distinct = False
        self.columns = []  # (expr, alias)
        self.frm = None
        self.where = None
        self.group_by = []
        self.having = None
        self.order_by = []  # (expr, desc)
        self.limit = None
        self.offset = None
        self.lock = None
        self.into = None  # list of ('var', name) | ('uvar', name)
        self.unions = []  # (all, Select)
        Select._n += 1
        self.uid = Select._n


class Parser:
    def __init__(self, sql, params_style=True):
        self.sql = sql
        self.toks = tokenize(sql, params_style)
        self.i = 0

    # ---- token helpers --------------------------------------------------------------------
    @property
    def t(self) -> Tok:
        return self.toks[self.i]

    def peek(self, k=1) -> Tok:
        j = self.i + k
        return self.toks[j] if j < len(self.toks) else self.toks[-1]

    def adv(self):
        t = self.toks[self.i]
        self.i += 1
        return t

    def is_kw(self, *kws, k=0):
        t = self.peek(k) if k else self.t
        return t.kind == 'id' and t.up in kws

    def is_op(self, *ops, k=0):
        t = self.peek(k) if k else self.t
        return t.kind == 'op' and t.val in ops

    def accept_kw(self, *kws):
        if self.is_kw(*kws):
            return self.adv().up
        return None

    def accept_op(self, *ops):
        if self.is_op(*ops):
            return self.adv().val
        return None

    def expect_kw(self, *kws):
        if not self.is_kw(*kws):
            self.fail(f'expected {"/".join(kws)}')
        return self.adv().up

    def expect_op(self, op):
        if not self.is_op(op):
            self.fail(f'expected {op!r}')
        return self.adv().val

    def fail(self, msg):
        p = self.t.pos
        raise SQLSyntaxError(f'{msg} near {self.sql[max(0, p - 40):p]!r} >>> {self.sql[p:p + 40]!r}')

    def ident(self):
        t = self.t
        if t.kind in ('id', 'qid'):
            self.adv()
            return t.val
        self.fail('expected identifier')

    # ---- expressions ----------------------------------------------------------------------
    def expr(self):
        return self.p_assign()

    def p_assign(self):
        if self.t.kind == 'uvar' and self.is_op(':=', k=1):
            name = self.adv().val
            self.adv()
            return ('assign', name, self.p_assign())
        return self.p_or()

    def p_or(self):
        a = self.p_xor()
        while self.is_kw('OR') or self.is_op('||'):
            self.adv()
            a = ('or', a, self.p_xor())
        return a

    def p_xor(self):
        a = self.p_and()
        while self.is_kw('XOR'):
            self.adv()
            a = ('bin', 'XOR', a, self.p_and())
        return a

    def p_and(self):
        a = self.p_not()
        while self.is_kw('AND') or self.is_op('&&'):
            self.adv()
            a = ('and', a, self.p_not())
        return a

    def p_not(self):
        if self.is_kw('NOT') and not self.is_kw('EXISTS', k=1):
            self.adv()
            return ('not', self.p_not())
        if self.is_kw('NOT') and self.is_kw('EXISTS', k=1):
            self.adv()
            return ('not', self.p_not())
        return self.p_cmp()

    def p_cmp(self):
        a = self.p_bitor()
        while True:
            if self.t.kind == 'op' and self.t.val in _CMP:
                op = self.adv().val
                if self.is_kw('ANY', 'ALL', 'SOME'):
                    self.fail('ANY/ALL not supported')
                b = self.p_bitor()
                a = ('bin', op, a, b)
                continue
            if self.is_kw('IS'):
                self.adv()
                neg = bool(self.accept_kw('NOT'))
                what = self.expect_kw('NULL', 'TRUE', 'FALSE', 'UNKNOWN')
                a = ('is', a, what, neg)
                continue
            neg = False
            save = self.i
            if self.is_kw('NOT') and self.is_kw('IN', 'LIKE', 'BETWEEN', 'REGEXP', k=1):
                self.adv()
                neg = True
            if self.accept_kw('IN'):
                if self.t.kind == 'param':
                    # pymysql renders a tuple/list argument as (a,b,c)
                    a = ('in', a, [('paramlist', self.adv().val)], neg)
                    continue
                self.expect_op('(')
                if self.is_kw('SELECT', 'WITH'):
                    s = self.select()
                    self.expect_op(')')
                    a = ('in', a, ('select', s), neg)
                else:
                    items = [self.expr()]
                    while self.accept_op(','):
                        items.append(self.expr())
                    self.expect_op(')')
                    a = ('in', a, items, neg)
                continue
            if self.accept_kw('LIKE'):
                pat = self.p_bitor()
                a = ('like', a, pat, neg)
                continue
            if self.accept_kw('REGEXP'):
                pat = self.p_bitor()
                a = ('regexp', a, pat, neg)
                continue
            if self.accept_kw('BETWEEN'):
                lo = self.p_bitor()
                self.expect_kw('AND')
                hi = self.p_bitor()
                a = ('between', a, lo, hi, neg)
                continue
            self.i = save
            return a

    def p_bitor(self):
        a = self.p_bitand()
        while self.is_op('|'):
            self.adv()
            a = ('bin', '|', a, self.p_bitand())
        return a

    def p_bitand(self):
        a = self.p_shift()
        while self.is_op('&'):
            self.adv()
            a = ('bin', '&', a, self.p_shift())
        return a

    def p_shift(self):
        a = self.p_add()
        while self.is_op('<<', '>>'):
            op = self.adv().val
            a = ('bin', op, a, self.p_add())
        return a

    def p_add(self):
        a = self.p_mul()
        while self.is_op('+', '-'):
            op = self.adv().val
            a = ('bin', op, a, self.p_mul())
        return a

    def p_mul(self):
        a = self.p_bitxor()
        while self.is_op('*', '/', '%') or self.is_kw('DIV', 'MOD'):
            t = self.adv()
            op = t.val if t.kind == 'op' else t.up
            a = ('bin', op, a, self.p_bitxor())
        return a

    def p_bitxor(self):
        a = self.p_unary()
        while self.is_op('^'):
            self.adv()
            a = ('bin', '^', a, self.p_unary())
        return a

    def p_unary(self):
        if self.is_op('-'):
            self.adv()
            e = self.p_unary()
            if e[0] == 'lit' and isinstance(e[1], (int, float)) and not isinstance(e[1], bool):
                return ('lit', -e[1])
            return ('un', '-', e)
        if self.is_op('+'):
            self.adv()
            return self.p_unary()
        if self.is_op('~'):
            self.adv()
            return ('un', '~', self.p_unary())
        if self.is_op('!'):
            self.adv()
            return ('not', self.p_unary())
        if self.is_kw('BINARY') and not self.is_op('(', k=1):
            self.adv()
            return ('func', 'BINARY', [self.p_unary()], False, False)
        e = self.p_primary()
        while self.is_kw('COLLATE'):
            self.adv()
            coll = self.ident()
            e = ('collate', e, coll.lower())
        return e

    def p_primary(self):
        t = self.t
        if t.kind == 'num':
            self.adv()
            return ('lit', t.val)
        if t.kind == 'str':
            self.adv()
            s = t.val
            while self.t.kind == 'str':  # adjacent string literals concatenate
                s += self.adv().val
            return ('lit', s)
        if t.kind == 'param':
            self.adv()
            return ('param', t.val)
        if t.kind == 'uvar':
            self.adv()
            return ('uvar', t.val)
        if t.kind == 'op' and t.val == '(':
            self.adv()
            if self.is_kw('SELECT', 'WITH'):
                s = self.select()
                self.expect_op(')')
                return ('subq', s)
            e = self.expr()
            if self.is_op(','):
                items = [e]
                while self.accept_op(','):
                    items.append(self.expr())
                self.expect_op(')')
                return ('tuple', items)
            self.expect_op(')')
            return e
        if t.kind == 'op' and t.val == '*':
            self.adv()
            return ('star', None)
        if t.kind == 'id':
            up = t.up
            if up == 'NULL':
                self.adv()
                return ('lit', None)
            if up == 'TRUE':
                self.adv()
                return ('lit', 1)
            if up == 'FALSE':
                self.adv()
                return ('lit', 0)
            if up == 'EXISTS':
                self.adv()
                self.expect_op('(')
                s = self.select()
                self.expect_op(')')
                return ('exists', s)
            if up == 'CASE':
                return self.p_case()
            if up in ('CAST', 'CONVERT') and self.is_op('(', k=1):
                self.adv()
                self.adv()
                e = self.expr()
                if up == 'CAST':
                    self.expect_kw('AS')
                else:
                    self.expect_op(',')
                ty = self.typename()
                self.expect_op(')')
                return ('cast', e, ty)
            if up == 'INTERVAL':
                self.fail('INTERVAL not supported')
            if up in ('CURRENT_TIMESTAMP', 'CURRENT_DATE', 'UTC_TIMESTAMP') and not self.is_op('(', k=1):
                self.adv()
                return ('func', up, [], False, False)
            if self.is_op('(', k=1):
                return self.p_call()
        if t.kind in ('id', 'qid'):
            if t.kind == 'id' and t.up in _RESERVED_STOP:
                self.fail(f'unexpected keyword {t.up}')
            name = self.adv().val
            if self.is_op('.'):
                self.adv()
                if self.is_op('*'):
                    self.adv()
                    return ('star', name)
                col = self.ident()
                if self.is_op('.'):  # db.table.col
                    self.adv()
                    col2 = self.ident()
                    return ('col', col, col2)
                return ('col', name, col)
            return ('col', None, name)
        self.fail('unexpected token in expression')

    def p_case(self):
        self.expect_kw('CASE')
        operand = None
        if not self.is_kw('WHEN'):
            operand = self.expr()
        whens = []
        while self.accept_kw('WHEN'):
            w = self.expr()
            self.expect_kw('THEN')
            th = self.expr()
            whens.append((w, th))
        els = None
        if self.accept_kw('ELSE'):
            els = self.expr()
        self.expect_kw('END')
        return ('case', operand, whens, els)

    def p_call(self):
        name = self.adv().up
        self.expect_op('(')
        distinct = False
        star = False
        args = []
        if name == 'VALUES':
            col = self.ident()
            self.expect_op(')')
            return ('values', col)
        if self.accept_op(')'):
            return ('func', name, [], False, False)
        if self.accept_kw('DISTINCT'):
            distinct = True
        if self.is_op('*') and self.is_op(')', k=1):
            self.adv()
            star = True
        else:
            args.append(self.expr())
            while self.accept_op(','):
                args.append(self.expr())
        if name == 'GROUP_CONCAT' and self.is_kw('ORDER', 'SEPARATOR'):
            self.fail('GROUP_CONCAT modifiers not supported')
        self.expect_op(')')
        if self.is_kw('OVER'):
            self.fail('window functions not supported')
        return ('func', name, args, distinct, star)

    def typename(self):
        name = self.adv().up
        if name in ('SIGNED', 'UNSIGNED') and self.is_kw('INTEGER', 'INT'):
            self.adv()
        args = None
        if self.is_op('('):
            self.adv()
            args = []
            while not self.is_op(')'):
                t = self.adv()
                if t.kind != 'op':
                    args.append(t.val)
            self.adv()
        while self.is_kw('UNSIGNED', 'SIGNED', 'ZEROFILL'):
            self.adv()
        if self.is_kw('CHARACTER') and self.is_kw('SET', k=1):
            self.adv()
            self.adv()
            self.adv()
        if self.is_kw('CHARSET'):
            self.adv()
            self.adv()
        return (name, args)

    # ---- SELECT ----------------------------------------------------------------------------
    def select(self):
        ctes = []
        if self.accept_kw('WITH'):
            if self.accept_kw('RECURSIVE'):
                self.fail('recursive CTE not supported')
            while True:
                name = self.ident()
                cols = None
                if self.is_op('('):
                    self.adv()
                    cols = [self.ident()]
                    while self.accept_op(','):
                        cols.append(self.ident())
                    self.expect_op(')')
                self.expect_kw('AS')
                self.expect_op('(')
                s = self.select()
                self.expect_op(')')
                ctes.append((name, cols, s))
                if not self.accept_op(','):
                    break
        s = self.select_core()
        s.ctes = ctes
        while self.is_kw('UNION'):
            self.adv()
            al = bool(self.accept_kw('ALL'))
            self.accept_kw('DISTINCT')
            if self.is_op('('):
                self.adv()
                rhs = self.select()
                self.expect_op(')')
            else:
                rhs = self.select_core()
            s.unions.append((al, rhs))
        if s.unions:
            # trailing ORDER BY / LIMIT of a union binds to the union
            pass
        return s

    def select_core(self):
        if self.is_op('('):
            self.adv()
            s = self.select()
            self.expect_op(')')
            self._tail(s)
            return s
        self.expect_kw('SELECT')
        s = Select()
        while self.is_kw('DISTINCT', 'ALL', 'STRAIGHT_JOIN', 'SQL_CALC_FOUND_ROWS', 'SQL_NO_CACHE', 'HIGH_PRIORITY'):
            if self.adv().up == 'DISTINCT':
                s.distinct = True
        while True:
            e = self.expr()
            alias = None
            if self.accept_kw('AS'):
                t = self.adv()
                alias = t.val
            elif self.t.kind == 'qid' or (self.t.kind == 'id' and self.t.up not in _RESERVED_STOP) or self.t.kind == 'str':
                alias = self.adv().val
            s.columns.append((e, alias))
            if not self.accept_op(','):
                break
        if self.is_kw('INTO'):
            s.into = self._into()
        if self.accept_kw('FROM'):
            s.frm = self.from_clause()
        if self.accept_kw('WHERE'):
            s.where = self.expr()
        if self.is_kw('GROUP'):
            self.adv()
            self.expect_kw('BY')
            s.group_by.append(self.expr())
            while self.accept_op(','):
                s.group_by.append(self.expr())
        if self.accept_kw('HAVING'):
            s.having = self.expr()
        self._tail(s)
        return s

    def _into(self):
        self.expect_kw('INTO')
        out = []
        while True:
            t = self.adv()
            if t.kind == 'uvar':
                out.append(('uvar', t.val))
            elif t.kind in ('id', 'qid'):
                out.append(('var', t.val))
            else:
                self.fail('bad INTO target')
            if not self.accept_op(','):
                break
        return out

    def _tail(self, s):
        if self.is_kw('ORDER'):
            self.adv()
            self.expect_kw('BY')
            while True:
                e = self.expr()
                desc = False
                if self.accept_kw('DESC'):
                    desc = True
                else:
                    self.accept_kw('ASC')
                s.order_by.append((e, desc))
                if not self.accept_op(','):
                    break
        if self.accept_kw('LIMIT'):
            a = self.expr()
            if self.accept_op(','):
                s.offset = a
                s.limit = self.expr()
            else:
                s.limit = a
                if self.accept_kw('OFFSET'):
                    s.offset = self.expr()
        if self.is_kw('INTO'):
            s.into = self._into()
        while True:
            if self.is_kw('FOR') and self.is_kw('UPDATE', 'SHARE', k=1):
                self.adv()
                s.lock = self.adv().up
                if self.accept_kw('OF'):
                    self.ident()
                    while self.accept_op(','):
                        self.ident()
                if self.accept_kw('SKIP'):
                    self.expect_kw('LOCKED')
                self.accept_kw('NOWAIT')
                continue
            if self.is_kw('LOCK') and self.is_kw('IN', k=1):
                self.adv()
                self.adv()
                self.expect_kw('SHARE')
                self.expect_kw('MODE')
                s.lock = 'SHARE'
                continue
            break
        if self.is_kw('INTO'):
            s.into = self._into()

    def from_clause(self):
        left = self.join_chain()
        while self.accept_op(','):
            right = self.join_chain()
            left = ('join', 'inner', left, right, None, None)
        return left

    def join_chain(self):
        left = self.table_factor()
        while True:
            kind = None
            if self.is_kw('JOIN'):
                self.adv()
                kind = 'inner'
            elif self.is_kw('INNER', 'CROSS'):
                self.adv()
                self.expect_kw('JOIN')
                kind = 'inner'
            elif self.is_kw('STRAIGHT_JOIN'):
                self.adv()
                kind = 'inner'
            elif self.is_kw('LEFT', 'RIGHT'):
                kind = self.adv().val.lower()
                self.accept_kw('OUTER')
                self.expect_kw('JOIN')
            elif self.is_kw('NATURAL'):
                self.fail('NATURAL JOIN not supported')
            else:
                return left
            right = self.table_factor()
            on = None
            using = None
            if self.accept_kw('ON'):
                on = self.expr()
            elif self.accept_kw('USING'):
                self.expect_op('(')
                using = [self.ident()]
                while self.accept_op(','):
                    using.append(self.ident())
                self.expect_op(')')
            if kind == 'right':
                left, right, kind = right, left, 'left'
            left = ('join', kind, left, right, on, using)

    def table_factor(self):
        lateral = bool(self.accept_kw('LATERAL'))
        if self.is_op('('):
            self.adv()
            if self.is_kw('SELECT', 'WITH') or self.is_op('('):
                s = self.select()
                self.expect_op(')')
                self.accept_kw('AS')
                alias = self.ident()
                return ('derived', s, alias, lateral)
            inner = self.from_clause()
            self.expect_op(')')
            return inner
        name = self.ident()
        if self.is_op('.'):
            self.adv()
            name = self.ident()
        alias = None
        if self.accept_kw('AS'):
            alias = self.ident()
        elif self.t.kind == 'qid' or (self.t.kind == 'id' and self.t.up not in _RESERVED_STOP and self.t.up not in ('PARTITION',)):
            alias = self.adv().val
        while self.is_kw('FORCE', 'USE', 'IGNORE') and self.is_kw('INDEX', 'KEY', k=1):
            self.adv()
            self.adv()
            if self.accept_kw('FOR'):
                self.adv()
                self.accept_kw('BY')
            self.expect_op('(')
            while not self.is_op(')'):
                self.adv()
            self.adv()
        return ('table', name, alias)

    # ---- statements ------------------------------------------------------------------------
    def statement(self):
        t = self.t
        if t.kind == 'op' and t.val == '(':
            return ('select', self.select())
        if t.kind != 'id':
            self.fail('expected statement')
        up = t.up
        if up in ('SELECT', 'WITH'):
            return ('select', self.select())
        if up == 'INSERT' or up == 'REPLACE':
            return self.insert()
        if up == 'UPDATE':
            return self.update()
        if up == 'DELETE':
            return self.delete()
        if up == 'CALL':
            self.adv()
            name = self.ident()
            args = []
            if self.accept_op('('):
                if not self.is_op(')'):
                    args.append(self.expr())
                    while self.accept_op(','):
                        args.append(self.expr())
                self.expect_op(')')
            return ('call', name, args)
        if up == 'START':
            self.adv()
            self.expect_kw('TRANSACTION')
            ro = False
            if self.accept_kw('READ'):
                ro = self.expect_kw('ONLY', 'WRITE') == 'ONLY'
            return ('start', ro)
        if up == 'BEGIN' and not self.is_kw('DECLARE', k=1):
            # statement-level BEGIN (transaction) only outside routines; routine bodies call block() directly
            self.adv()
            self.accept_kw('WORK')
            return ('start', False)
        if up == 'COMMIT':
            self.adv()
            return ('commit',)
        if up == 'ROLLBACK':
            self.adv()
            return ('rollback',)
        if up == 'SET':
            return self.set_stmt()
        if up in ('LOCK', 'UNLOCK'):
            while self.t.kind != 'eof' and not self.is_op(';'):
                self.adv()
            return ('noop',)
        self.fail(f'unsupported statement {up}')

    def set_stmt(self):
        self.expect_kw('SET')
        assigns = []
        while True:
            t = self.adv()
            if t.kind == 'uvar':
                target = ('uvar', t.val)
            elif t.kind in ('id', 'qid'):
                name = t.val
                if self.is_op('.'):
                    self.adv()
                    col = self.ident()
                    target = ('field', name, col)
                else:
                    target = ('var', name)
            else:
                self.fail('bad SET target')
            if not self.accept_op('=', ':='):
                self.fail('expected = in SET')
            assigns.append((target, self.expr()))
            if not self.accept_op(','):
                break
        return ('set', assigns)

    def insert(self):
        verb = self.adv().up
        ignore = False
        while self.is_kw('IGNORE', 'LOW_PRIORITY', 'DELAYED', 'HIGH_PRIORITY'):
            if self.adv().up == 'IGNORE':
                ignore = True
        self.accept_kw('INTO')
        table = self.ident()
        cols = None
        if self.is_op('(') and not self.is_kw('SELECT', 'WITH', k=1):
            self.adv()
            cols = []
            if not self.is_op(')'):
                cols.append(self.ident())
                while self.accept_op(','):
                    cols.append(self.ident())
            self.expect_op(')')
        rows = None
        sel = None
        if self.accept_kw('VALUES', 'VALUE'):
            rows = []
            while True:
                self.expect_op('(')
                r = []
                if not self.is_op(')'):
                    r.append(self.expr())
                    while self.accept_op(','):
                        r.append(self.expr())
                self.expect_op(')')
                rows.append(r)
                if not self.accept_op(','):
                    break
        elif self.is_kw('SELECT', 'WITH') or self.is_op('('):
            sel = self.select()
        elif self.is_kw('SET'):
            self.adv()
            cols = []
            r = []
            while True:
                cols.append(self.ident())
                self.expect_op('=')
                r.append(self.expr())
                if not self.accept_op(','):
                    break
            rows = [r]
        else:
            self.fail('expected VALUES or SELECT')
        self.accept_kw('AS') and self.ident()
        odku = None
        if self.accept_kw('ON'):
            self.expect_kw('DUPLICATE')
            self.expect_kw('KEY')
            self.expect_kw('UPDATE')
            odku = []
            while True:
                name = self.ident()
                if self.is_op('.'):
                    self.adv()
                    name = self.ident()
                self.expect_op('=')
                odku.append((name, self.expr()))
                if not self.accept_op(','):
                    break
        return ('insert', table, cols, rows, sel, odku, ignore, verb == 'REPLACE')

    def update(self):
        self.expect_kw('UPDATE')
        self.accept_kw('IGNORE')
        frm = self.from_clause()
        self.expect_kw('SET')
        sets = []
        while True:
            q = None
            name = self.ident()
            if self.is_op('.'):
                self.adv()
                q, name = name, self.ident()
            self.expect_op('=')
            sets.append((q, name, self.expr()))
            if not self.accept_op(','):
                break
        where = None
        if self.accept_kw('WHERE'):
            where = self.expr()
        order_by = []
        limit = None
        if self.is_kw('ORDER'):
            self.adv()
            self.expect_kw('BY')
            while True:
                e = self.expr()
                desc = bool(self.accept_kw('DESC'))
                self.accept_kw('ASC')
                order_by.append((e, desc))
                if not self.accept_op(','):
                    break
        if self.accept_kw('LIMIT'):
            limit = self.expr()
        return ('update', frm, sets, where, order_by, limit)

    def delete(self):
        self.expect_kw('DELETE')
        self.accept_kw('IGNORE')
        targets = None
        if not self.is_kw('FROM'):
            targets = [self.ident()]
            while self.accept_op(','):
                targets.append(self.ident())
        self.expect_kw('FROM')
        frm = self.from_clause()
        if self.accept_kw('USING'):
            self.fail('DELETE ... USING not supported')
        where = None
        if self.accept_kw('WHERE'):
            where = self.expr()
        order_by = []
        limit = None
        if self.is_kw('ORDER'):
            self.adv()
            self.expect_kw('BY')
            while True:
                e = self.expr()
                desc = bool(self.accept_kw('DESC'))
                self.accept_kw('ASC')
                order_by.append((e, desc))
                if not self.accept_op(','):
                    break
        if self.accept_kw('LIMIT'):
            limit = self.expr()
        return ('delete', targets, frm, where, order_by, limit)

    # ---- routine bodies --------------------------------------------------------------------
    def routine_statement(self):
        """One statement inside a routine body (no trailing ';' consumed)."""
        label = None
        if self.t.kind in ('id', 'qid') and self.is_op(':', k=1):
            pass
        # label: `name: LOOP`
        if self.t.kind == 'id' and self.peek().kind == 'op' and self.peek().val == ':=':
            pass
        if self.t.kind == 'id' and self._is_label():
            label = self.adv().val
            self._skip_colon()
        if self.is_kw('BEGIN'):
            return self.block(label)
        if self.is_kw('DECLARE'):
            return self.declare()
        if self.is_kw('IF') and not self.is_op('(', k=1):
            return self.if_stmt()
        if self.is_kw('IF') and self.is_op('(', k=1):
            # IF (cond) THEN ... : statement form (function form IF(a,b,c) cannot start a statement)
            return self.if_stmt()
        if self.is_kw('LOOP'):
            self.adv()
            body = self.stmt_list(('END',))
            self.expect_kw('END')
            self.expect_kw('LOOP')
            if self.t.kind == 'id' and label and self.t.val == label:
                self.adv()
            return ('loop', label, body)
        if self.is_kw('WHILE'):
            self.adv()
            cond = self.expr()
            self.expect_kw('DO')
            body = self.stmt_list(('END',))
            self.expect_kw('END')
            self.expect_kw('WHILE')
            return ('while', label, cond, body)
        if self.is_kw('LEAVE'):
            self.adv()
            return ('leave', self.ident())
        if self.is_kw('ITERATE'):
            self.adv()
            return ('iterate', self.ident())
        if self.is_kw('OPEN'):
            self.adv()
            return ('open', self.ident())
        if self.is_kw('CLOSE'):
            self.adv()
            return ('close', self.ident())
        if self.is_kw('FETCH'):
            self.adv()
            self.accept_kw('NEXT')
            self.accept_kw('FROM')
            cur = self.ident()
            self.expect_kw('INTO')
            names = [self.ident()]
            while self.accept_op(','):
                names.append(self.ident())
            return ('fetch', cur, names)
        if self.is_kw('SIGNAL'):
            self.adv()
            self.expect_kw('SQLSTATE')
            self.accept_kw('VALUE')
            state = self.adv().val
            msg = None
            if self.accept_kw('SET'):
                while True:
                    item = self.adv().up
                    self.expect_op('=')
                    v = self.expr()
                    if item == 'MESSAGE_TEXT':
                        msg = v
                    if not self.accept_op(','):
                        break
            return ('signal', state, msg)
        if self.is_kw('RETURN'):
            self.adv()
            return ('return', self.expr())
        return self.statement()

    def _is_label(self):
        # the lexer has no ':' operator: a label looks like `name` followed by an unknown char; handled in tokenizer
        return False

    def _skip_colon(self):
        pass

    def block(self, label=None):
        self.expect_kw('BEGIN')
        body = self.stmt_list(('END',))
        self.expect_kw('END')
        if self.t.kind == 'id' and label and self.t.val == label:
            self.adv()
        return ('block', label, body)

    def stmt_list(self, stops):
        out = []
        while True:
            while self.accept_op(';'):
                pass
            if self.t.kind == 'eof' or self.is_kw(*stops):
                return out
            out.append(self.routine_statement())
            if not self.accept_op(';'):
                if self.t.kind == 'eof' or self.is_kw(*stops):
                    return out
                self.fail('expected ; between routine statements')

    def declare(self):
        self.expect_kw('DECLARE')
        if self.is_kw('CONTINUE', 'EXIT') and self.is_kw('HANDLER', k=1):
            kind = self.adv().up
            self.adv()
            self.expect_kw('FOR')
            conds = []
            while True:
                if self.accept_kw('NOT'):
                    self.expect_kw('FOUND')
                    conds.append('NOT FOUND')
                elif self.accept_kw('SQLEXCEPTION'):
                    conds.append('SQLEXCEPTION')
                elif self.accept_kw('SQLWARNING'):
                    conds.append('SQLWARNING')
                elif self.accept_kw('SQLSTATE'):
                    self.accept_kw('VALUE')
                    conds.append('SQLSTATE ' + str(self.adv().val))
                else:
                    conds.append(str(self.adv().val))
                if not self.accept_op(','):
                    break
            body = self.routine_statement()
            return ('handler', kind, conds, body)
        name = self.ident()
        if self.is_kw('CURSOR'):
            self.adv()
            self.expect_kw('FOR')
            return ('cursor', name, self.select())
        names = [name]
        while self.accept_op(','):
            names.append(self.ident())
        ty = self.typename()
        default = None
        if self.accept_kw('DEFAULT'):
            default = self.expr()
        return ('declare', names, ty, default)

    def if_stmt(self):
        self.expect_kw('IF')
        arms = []
        cond = self.expr()
        self.expect_kw('THEN')
        body = self.stmt_list(('ELSEIF', 'ELSE', 'END'))
        arms.append((cond, body))
        els = None
        while True:
            if self.accept_kw('ELSEIF'):
                c = self.expr()
                self.expect_kw('THEN')
                b = self.stmt_list(('ELSEIF', 'ELSE', 'END'))
                arms.append((c, b))
                continue
            if self.accept_kw('ELSE'):
                els = self.stmt_list(('END',))
            break
        self.expect_kw('END')
        self.expect_kw('IF')
        return ('if', arms, els)


def parse_statement(sql, params_style=True):
    p = Parser(sql, params_style)
    st = p.statement()
    while p.accept_op(';'):
        pass
    if p.t.kind != 'eof':
        p.fail('trailing text after statement')
    return st


def parse_routine(sql):
    """CREATE TRIGGER|PROCEDURE|FUNCTION ... -> dict"""
    import re

    # labels (`name: LOOP`) -> the lexer has no ':' token; rewrite `label: LOOP|BEGIN|WHILE` as `LABEL__label LOOP`
    sql = re.sub(r'\b([A-Za-z_][A-Za-z0-9_]*)\s*:\s*(LOOP|BEGIN|WHILE|REPEAT)\b', r'__LABEL__ \1 \2', sql)
    p = _RoutineParser(sql, params_style=False)
    return p.create()


class _RoutineParser(Parser):
    def routine_statement(self):
        if self.is_kw('__LABEL__'):
            self.adv()
            label = self.adv().val
            if self.is_kw('BEGIN'):
                return self.block(label)
            if self.is_kw('LOOP'):
                self.adv()
                body = self.stmt_list(('END',))
                self.expect_kw('END')
                self.expect_kw('LOOP')
                if self.t.kind == 'id' and self.t.val == label:
                    self.adv()
                return ('loop', label, body)
            if self.is_kw('WHILE'):
                self.adv()
                cond = self.expr()
                self.expect_kw('DO')
                body = self.stmt_list(('END',))
                self.expect_kw('END')
                self.expect_kw('WHILE')
                if self.t.kind == 'id' and self.t.val == label:
                    self.adv()
                return ('while', label, cond, body)
            self.fail('unsupported labelled statement')
        return super().routine_statement()

    def create(self):
        self.expect_kw('CREATE')
        if self.accept_kw('DEFINER'):
            self.expect_op('=')
            while not self.is_kw('TRIGGER', 'PROCEDURE', 'FUNCTION'):
                self.adv()
        kind = self.expect_kw('TRIGGER', 'PROCEDURE', 'FUNCTION')
        name = self.ident()
        if kind == 'TRIGGER':
            timing = self.expect_kw('BEFORE', 'AFTER')
            event = self.expect_kw('INSERT', 'UPDATE', 'DELETE')
            self.expect_kw('ON')
            table = self.ident()
            self.expect_kw('FOR')
            self.expect_kw('EACH')
            self.expect_kw('ROW')
            body = self.routine_statement()
            self._end()
            return {'kind': kind, 'name': name, 'timing': timing, 'event': event, 'table': table, 'params': [], 'body': body}
        params = []
        self.expect_op('(')
        if not self.is_op(')'):
            while True:
                mode = 'IN'
                if self.is_kw('IN', 'OUT', 'INOUT') and kind == 'PROCEDURE':
                    mode = self.adv().up
                pname = self.ident()
                ty = self.typename()
                params.append((mode, pname, ty))
                if not self.accept_op(','):
                    break
        self.expect_op(')')
        returns = None
        if kind == 'FUNCTION':
            self.expect_kw('RETURNS')
            returns = self.typename()
        while self.is_kw('NOT', 'DETERMINISTIC', 'READS', 'MODIFIES', 'CONTAINS', 'NO', 'SQL', 'LANGUAGE', 'COMMENT'):
            up = self.adv().up
            if up == 'NOT':
                self.expect_kw('DETERMINISTIC')
            elif up in ('READS', 'MODIFIES'):
                self.expect_kw('SQL')
                self.expect_kw('DATA')
            elif up == 'CONTAINS':
                self.expect_kw('SQL')
            elif up == 'NO':
                self.expect_kw('SQL')
            elif up == 'LANGUAGE':
                self.expect_kw('SQL')
            elif up == 'COMMENT':
                self.adv()
        body = self.routine_statement()
        self._end()
        return {'kind': kind, 'name': name, 'params': params, 'returns': returns, 'body': body}

    def _end(self):
        while self.accept_op(';'):
            pass
        if self.t.kind != 'eof':
            self.fail('trailing text after routine')
