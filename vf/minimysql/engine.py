"""minimysql engine: database state, connections/transactions, DML with triggers and foreign keys,
stored routines.  See DESIGN.md 2.2 and Appendix A for the MySQL rules implemented here."""
import datetime
import random
import time
from collections import Counter

import pymysql

from . import select as _select_mod  # noqa: F401  (attaches Compiler.select)
from .compile import Compiler, Ctx, RoutineInfo, Scope
from .loader import final_routines
from .parser import Select, parse_routine, parse_statement
from .schema import load_tables
from .select import SelectPlan, conjuncts
from .values import SqlType, Unsupported, compare, to_number, truth

IntegrityError = pymysql.err.IntegrityError
OperationalError = pymysql.err.OperationalError
ProgrammingError = pymysql.err.ProgrammingError
DataError = pymysql.err.DataError


class NotFound(Exception):
    """SQLSTATE 02000 (no data)"""


class Leave(Exception):
    def __init__(self, label):
        self.label = label


class Iterate(Exception):
    def __init__(self, label):
        self.label = label


class Return(Exception):
    def __init__(self, value):
        self.value = value


class Frame:
    __slots__ = ('vars', 'types', 'cursors', 'handlers', 'new', 'old', 'routine', 'out_binds', 'new_types')

    def __init__(self, routine):
        self.vars = {}
        self.types = {}
        self.cursors = {}
        self.handlers = []
        self.new = None
        self.old = None
        self.routine = routine


class Routine:
    def __init__(self, db, ast, source, migration):
        self.db = db
        self.kind = ast['kind']
        self.name = ast['name'].lower()
        self.ast = ast
        self.source = source
        self.migration = migration
        self.params = [(m, n.lower(), SqlType(t[0], t[1])) for m, n, t in ast.get('params', [])]
        self.returns = SqlType(*ast['returns']) if ast.get('returns') else None
        self.table = ast.get('table', '').lower() or None
        self.timing = ast.get('timing')
        self.event = ast.get('event')
        self.info = RoutineInfo(self.name, self.kind, db.tables[self.table] if self.table else None)
        for _, n, t in self.params:
            self.info.vars[n] = t
        self._collect_decls(ast['body'])
        self.cache = {}  # id(node) -> compiled artefact
        self.scope = Scope(parent=None, routine=self.info)

    def _collect_decls(self, node):
        if not isinstance(node, tuple):
            return
        tag = node[0]
        if tag == 'declare':
            for n in node[1]:
                self.info.vars[n.lower()] = SqlType(*node[2])
        elif tag == 'block':
            for s in node[2]:
                self._collect_decls(s)
        elif tag == 'if':
            for _, body in node[1]:
                for s in body:
                    self._collect_decls(s)
            for s in node[2] or []:
                self._collect_decls(s)
        elif tag in ('loop',):
            for s in node[2]:
                self._collect_decls(s)
        elif tag == 'while':
            for s in node[3]:
                self._collect_decls(s)
        elif tag == 'handler':
            self._collect_decls(node[3])


class Database:
    def __init__(self, repo=None, seed=0, clock=None):
        self.repo = repo
        self.tables, self.added_columns, _ = load_tables(repo)
        for t in self.tables.values():
            for cols, ref, refcols, on_delete in t.fks:
                if ref in self.tables:
                    self.tables[ref].children.append((t, cols, refcols, on_delete))
        self.comp = Compiler(self)
        self.routines = {}
        self.triggers = {}
        self.rng = random.Random(seed)
        self.clock = clock or time.time
        self.stmt_cache = {}
        self.branch_hits = Counter()  # (routine, arm id) -> count : per-routine branch coverage
        self.routine_calls = Counter()
        self.commit_hooks = []
        self.preempt_hook = None  # (conn, routine) -> None, see exec_stmt 'start'
        self.lock_owner = None
        self.lock_waiters = []
        self.n_commits = 0
        self.n_statements = 0
        self.stmt_log = None  # list or None
        self.load_routines()

    def load_routines(self):
        for (kind, name), (src, fn) in final_routines(self.repo).items():
            ast = parse_routine(src)
            r = Routine(self, ast, src, fn)
            if kind == 'TRIGGER':
                if r.table not in self.tables:
                    continue
                self.triggers.setdefault((r.table, r.timing, r.event), []).append(r)
            self.routines[(kind, r.name)] = r

    def reset(self, seed=0, clock=None):
        """empty every table and reset counters; compiled statements / routines are kept (they only hold
        references to Table objects, which survive)"""
        for t in self.tables.values():
            t.rows = []
            t.uidx = [dict() for _ in t.uniques]
            t.version += 1
            t.auto_next = 1
            t._hidx = {}
        self.rng = random.Random(seed)
        if clock is not None:
            self.clock = clock
        self.branch_hits = Counter()
        self.routine_calls = Counter()
        self.commit_hooks = []
        self.preempt_hook = None  # (conn, routine) -> None, see exec_stmt 'start'
        self.lock_owner = None
        self.lock_waiters = []
        self.n_commits = 0
        self.n_statements = 0
        self.stmt_log = None

    def save_state(self):
        return {name: ([dict(r) for r in t.rows], t.auto_next) for name, t in self.tables.items()}

    def load_state(self, state):
        for name, t in self.tables.items():
            rows, auto = state[name]
            t.rows = []
            t.uidx = [dict() for _ in t.uniques]
            t._hidx = {}
            t.auto_next = auto
            for r in rows:
                t.raw_insert(dict(r))
        self.lock_owner = None

    def rand(self):
        return self.rng.random()

    def now(self):
        return self.clock()

    def utc_date(self):
        return datetime.datetime.fromtimestamp(self.clock(), datetime.timezone.utc).date()

    def connect(self):
        return Connection(self)

    # ---- inspection (monitors) ----------------------------------------------------------------
    def dump(self, tables=None):
        out = {}
        for name, t in self.tables.items():
            if tables is not None and name not in tables:
                continue
            out[name] = [dict(r) for r in t.rows]
        return out

    def snapshot(self):
        """cheap deep copy of all table contents (for twin-run / unchanged-state oracles)"""
        return {name: [tuple(sorted(r.items(), key=lambda kv: kv[0])) for r in t.rows] for name, t in self.tables.items()}

    def call_function(self, routine, args, conn):
        fr = Frame(routine)
        for (m, n, t), v in zip(routine.params, args):
            fr.vars[n] = t.convert(v, f"parameter '{n}'", strict=False)
            fr.types[n] = t
        self.routine_calls[routine.name] += 1
        try:
            conn.exec_routine_stmt(routine, routine.ast['body'], fr)
        except Return as r:
            return routine.returns.convert(r.value, 'return value', strict=False) if routine.returns else r.value
        raise OperationalError(1321, f'FUNCTION {routine.name} ended without RETURN')


class Connection:
    def __init__(self, db):
        self.db = db
        self.uvars = {}
        self.params = ()
        self.row_count = -1
        self.last_insert_id = 0
        self.in_txn = False
        self.undo = []
        self.wrote = False
        self.result_sets = []
        self.depth = 0  # routine nesting
        self.closed = False

    # ---- transactions -------------------------------------------------------------------------
    def begin(self):
        if self.in_txn:
            self.commit()
        self.in_txn = True

    def _log(self, entry):
        self.undo.append(entry)
        self.wrote = True

    def commit(self):
        wrote = self.wrote
        self.undo.clear()
        self.wrote = False
        self.in_txn = False
        if self.db.lock_owner is self:
            self.db.lock_owner = None
        if wrote:
            self.db.n_commits += 1
            for h in list(self.db.commit_hooks):
                h(self.db, self)

    def rollback(self):
        self._undo_to(0)
        self.wrote = False
        self.in_txn = False
        if self.db.lock_owner is self:
            self.db.lock_owner = None

    def _undo_to(self, mark):
        while len(self.undo) > mark:
            e = self.undo.pop()
            kind = e[0]
            if kind == 'ins':
                e[1].raw_delete(e[2])
            elif kind == 'del':
                e[1].raw_insert(e[2], e[3])
            elif kind == 'upd':
                e[1].raw_update(e[2], e[3])
            elif kind == 'auto':
                e[1].auto_next = e[2]

    def take_lock(self):
        """global write lock (DESIGN 2.2): caller (the aiomysql shim) must have awaited availability"""
        db = self.db
        if db.lock_owner is None or db.lock_owner is self:
            db.lock_owner = self
            return True
        return False

    # ---- entry point --------------------------------------------------------------------------
    def execute(self, sql, args=None):
        """-> (rowcount, description names or None, rows or None, lastrowid)"""
        db = self.db
        db.n_statements += 1
        key = sql
        ent = db.stmt_cache.get(key)
        if ent is None:
            try:
                ast = parse_statement(sql, params_style=True)
            except Exception as e:
                from .lexer import SQLSyntaxError

                if isinstance(e, SQLSyntaxError) and 'textual substitution' in str(e):
                    raise Unsupported('parameter inside a string literal: ' + sql[:80])
                if isinstance(e, SQLSyntaxError):
                    raise ProgrammingError(1064, f'You have an error in your SQL syntax (minimysql): {e}')
                raise
            ent = db.stmt_cache[key] = {'ast': ast}
        self.params = args if args is not None else ()
        if isinstance(self.params, list):
            self.params = tuple(self.params)
        elif not isinstance(self.params, (tuple, dict)):
            self.params = (self.params,)  # pymysql: a scalar argument is formatted as a single value
        if db.stmt_log is not None:
            db.stmt_log.append((sql, args))
        self.result_sets = []
        if self.depth == 0:
            self.top_statement = (sql, args)
        mark = len(self.undo)
        auto = not self.in_txn
        try:
            rc = self.exec_top(ent)
        except Unsupported:
            raise
        except BaseException:
            # statement-level atomicity: undo this statement only (a CALL that committed inside keeps it)
            self._undo_to(min(mark, len(self.undo)))
            if not self.in_txn:
                self.rollback()
            raise
        if auto and not self.in_txn:
            self.commit()  # autocommit
        rs = self.result_sets[0] if self.result_sets else None
        self.row_count = rc
        if rs is not None:
            return len(rs[1]), rs[0], rs[1], self.last_insert_id
        return rc, None, None, self._stmt_lastrowid

    _stmt_lastrowid = 0

    def exec_top(self, ent):
        ast = ent['ast']
        self._stmt_lastrowid = 0
        return self.exec_stmt(ast, ent, None, None)

    # ---- statement execution ------------------------------------------------------------------
    def exec_stmt(self, ast, cache, frame, routine):
        tag = ast[0]
        scope_routine = routine.info if routine is not None else None
        if tag == 'select':
            plan = cache.get('plan')
            if plan is None:
                plan = cache['plan'] = SelectPlan(self.db.comp, ast[1], Scope(parent=None, routine=scope_routine))
            sel = ast[1]
            if sel.lock:
                self.need_lock()
            if sel.into is not None:
                names, rows = plan.run(None, frame, self)
                if not rows:
                    self.row_count = 0
                    raise NotFound()
                if len(rows) > 1:
                    raise OperationalError(1172, 'Result consisted of more than one row')
                if len(rows[0]) != len(sel.into):
                    raise OperationalError(1222, 'The used SELECT statements have a different number of columns')
                for (kind, name), v in zip(sel.into, rows[0]):
                    if kind == 'uvar':
                        self.uvars[name] = v
                    else:
                        self.set_var(frame, name, v)
                self.row_count = 1
                return 1
            names, rows = plan.run(None, frame, self)
            # pymysql DictCursor: a repeated column name is reported as "<table>.<name>"
            seen = set()
            out_names = []
            for n, tb in zip(names, plan.col_tables + [''] * len(names)):
                if n in seen:
                    n = f'{tb}.{n}'
                seen.add(n)
                out_names.append(n)
            self.result_sets.append((out_names, rows))
            self.row_count = -1
            return len(rows)
        if tag == 'insert':
            return self.exec_insert(ast, cache, frame, routine)
        if tag == 'update':
            return self.exec_update(ast, cache, frame, routine)
        if tag == 'delete':
            return self.exec_delete(ast, cache, frame, routine)
        if tag == 'call':
            return self.exec_call(ast, cache, frame, routine)
        if tag == 'start':
            hook = self.db.preempt_hook
            self.preempt_point = 'start-transaction'
            if hook is not None and self.depth == 1:
                # START TRANSACTION inside a top-level CALL implicitly commits whatever transaction the session had open
                # (releasing its locks) before the new one starts: whatever the procedure read before this point is held
                # in variables only, and another session's statements can really run here.  The hook (harness) may run
                # them synchronously on another connection.
                if self.in_txn:
                    self.commit()
                mine = self.db.lock_owner is self
                if mine:
                    self.db.lock_owner = None
                try:
                    hook(self, routine)
                finally:
                    if mine:
                        self.need_lock()
            self.begin()
            return 0
        if tag == 'commit':
            self.commit()
            return 0
        if tag == 'rollback':
            self.rollback()
            return 0
        if tag == 'set':
            for i, (target, e) in enumerate(ast[1]):
                f = cache.get(('set', i))
                if f is None:
                    f = cache[('set', i)] = self.db.comp.expr(e, Scope(parent=None, routine=scope_routine))
                v = f(Ctx([], None, frame, self))
                if target[0] == 'uvar':
                    self.uvars[target[1]] = v
                elif target[0] == 'var':
                    self.set_var(frame, target[1], v)
                else:
                    q, col = target[1].lower(), target[2].lower()
                    if q != 'new' or frame is None or frame.new is None:
                        raise Unsupported('SET ' + target[1] + '.' + target[2])
                    if routine.timing != 'BEFORE':
                        raise OperationalError(1362, 'Updating of NEW row is not allowed in after trigger')
                    frame.new[col] = v
            return 0
        if tag == 'noop':
            return 0
        raise Unsupported('statement ' + tag)

    def need_lock(self):
        if not self.take_lock():
            raise LockWouldBlock()

    def set_var(self, frame, name, v):
        ln = name.lower()
        if frame is None or ln not in frame.vars:
            raise OperationalError(1327, f'Undeclared variable: {name}')
        t = frame.types.get(ln)
        frame.vars[ln] = t.convert(v, f"variable '{name}'", strict=False) if t is not None else v

    # ---- INSERT -------------------------------------------------------------------------------
    def exec_insert(self, ast, cache, frame, routine):
        _, tname, cols, rows, sel, odku, ignore, replace = ast
        if replace:
            raise Unsupported('REPLACE')
        db = self.db
        t = db.tables.get(tname.lower())
        if t is None:
            raise ProgrammingError(1146, f"Table 'batch.{tname}' doesn't exist")
        self.need_lock()
        info = routine.info if routine is not None else None
        plan = cache.get('iplan')
        if plan is None:
            plan = {}
            colnames = [c.lower() for c in cols] if cols is not None else list(t.columns)
            for c in colnames:
                if c not in t.columns:
                    raise OperationalError(1054, f"Unknown column '{c}' in 'field list'")
            plan['cols'] = colnames
            base = Scope(parent=None, routine=info)
            if rows is not None:
                plan['rows'] = [[db.comp.expr(e, base) for e in r] for r in rows]
                for r in rows:
                    if len(r) != len(colnames):
                        raise OperationalError(1136, "Column count doesn't match value count at row 1")
            else:
                plan['select'] = SelectPlan(db.comp, sel, base)
                if len(plan['select'].cols) != len(colnames):
                    raise OperationalError(1136, "Column count doesn't match value count at row 1")
            if odku is not None:
                sc = Scope(parent=None, routine=info)
                sc.add(t.name, {c: (c, col.cs) for c, col in t.columns.items()}, t)
                outer_scope = None
                if sel is not None and not sel.group_by and not plan['select'].is_agg:
                    # columns of the SELECT's tables are visible (after the target's own)
                    sc.parent = plan['select'].scope
                plan['odku'] = [(n.lower(), db.comp.expr(e, sc)) for n, e in odku]
                for n, _ in plan['odku']:
                    if n not in t.columns:
                        raise OperationalError(1054, f"Unknown column '{n}' in 'field list'")
            cache['iplan'] = plan
        colnames = plan['cols']
        affected = 0
        ctx0 = Ctx([], None, frame, self)

        def one(values, src_ctx):
            nonlocal affected
            row = {}
            for c, col in t.columns.items():
                row[c] = col.default
            given = set()
            for c, v in zip(colnames, values):
                row[c] = v
                given.add(c)
            affected += self.insert_row(t, row, given, plan.get('odku'), ignore, frame, src_ctx)

        if 'rows' in plan:
            for r in plan['rows']:
                one([f(ctx0) for f in r], None)
        else:
            for vals, c in plan['select'].run_iter(None, frame, self):
                one(vals, c)
        self.row_count = affected
        return affected

    def insert_row(self, t, row, given, odku, ignore, frame, src_ctx):
        db = self.db
        # auto increment
        for c, col in t.columns.items():
            if col.auto_inc and (row[c] is None or row[c] == 0):
                self._log(('auto', t, t.auto_next))
                row[c] = t.auto_next
                t.auto_next += 1
                if not self._stmt_lastrowid:
                    self._stmt_lastrowid = row[c]
                self.last_insert_id = row[c]
            elif col.auto_inc and isinstance(row[c], int) and row[c] >= t.auto_next:
                self._log(('auto', t, t.auto_next))
                t.auto_next = row[c] + 1
        # conversion before triggers (NEW holds converted values)
        for c, col in t.columns.items():
            v = row[c]
            if v is not None:
                row[c] = col.type.convert(v, f"column '{c}'")
        for trg in db.triggers.get((t.name, 'BEFORE', 'INSERT'), ()):
            self.run_trigger(trg, row, None)
        for c, col in t.columns.items():
            v = row[c]
            if v is None:
                if not col.nullable:
                    if c not in given and not col.has_default and not col.auto_inc:
                        raise OperationalError(1364, f"Field '{c}' doesn't have a default value")
                    raise IntegrityError(1048, f"Column '{c}' cannot be null")
            else:
                row[c] = col.type.convert(v, f"column '{c}'")
        # uniqueness
        for k, (cols, idx) in enumerate(zip(t.uniques, t.uidx)):
            key = t.norm_key(cols, row)
            if key is None:
                continue
            existing = idx.get(key)
            if existing is not None:
                if odku is not None:
                    return self.odku_update(t, existing, row, odku, frame, src_ctx)
                if ignore:
                    return 0
                kn = t.unique_names[k] if k < len(t.unique_names) else 'PRIMARY'
                raise IntegrityError(1062, "Duplicate entry '%s' for key '%s.%s'" % ('-'.join(str(row[c]) for c in cols), t.name, kn))
        self.check_fks(t, row, None)
        t.raw_insert(row)
        self._log(('ins', t, row))
        for trg in db.triggers.get((t.name, 'AFTER', 'INSERT'), ()):
            self.run_trigger(trg, row, None)
        return 1

    def odku_update(self, t, existing, ins_row, odku, frame, src_ctx):
        new = dict(existing)
        ctx = Ctx([new], src_ctx, frame, self, ins=ins_row)
        for name, f in odku:
            new[name] = f(ctx)  # left to right; later assignments see earlier ones
        changed = self.update_row(t, existing, new, frame)
        return 2 if changed else 0

    def check_fks(self, t, row, changed_cols):
        db = self.db
        for cols, ref, refcols, _ in t.fks:
            if changed_cols is not None and not any(c in changed_cols for c in cols):
                continue
            vals = [row[c] for c in cols]
            if any(v is None for v in vals):
                continue
            pt = db.tables.get(ref)
            if pt is None:
                continue
            key = []
            for rc, v in zip(refcols, vals):
                if isinstance(v, str) and not pt.columns[rc].cs:
                    from .values import ci_key

                    v = ci_key(v)
                key.append(v)
            if not pt.hash_index(tuple(refcols)).get(tuple(key)):
                raise IntegrityError(
                    1452, f'Cannot add or update a child row: a foreign key constraint fails (`batch`.`{t.name}`, FOREIGN KEY '
                    f'({", ".join(cols)}) REFERENCES `{ref}` ({", ".join(refcols)}))')

    # ---- UPDATE -------------------------------------------------------------------------------
    def update_row(self, t, row, new, frame):
        """row: stored dict; new: proposed full dict.  Fires triggers, checks, applies.  -> changed?"""
        db = self.db
        old = dict(row)
        for c, col in t.columns.items():
            v = new[c]
            if v is not None and v is not old[c]:
                new[c] = col.type.convert(v, f"column '{c}'")
        for trg in db.triggers.get((t.name, 'BEFORE', 'UPDATE'), ()):
            self.run_trigger(trg, new, old)
        delta = {}
        for c, col in t.columns.items():
            v = new[c]
            if v is None:
                if not col.nullable:
                    raise IntegrityError(1048, f"Column '{c}' cannot be null")
            else:
                v = new[c] = col.type.convert(v, f"column '{c}'")
            o = old[c]
            if v is not o and (v != o or type(v) is not type(o)):
                delta[c] = v
        if delta:
            for k, (cols, idx) in enumerate(zip(t.uniques, t.uidx)):
                if not any(c in delta for c in cols):
                    continue
                key = t.norm_key(cols, new)
                if key is None:
                    continue
                existing = idx.get(key)
                if existing is not None and existing is not row:
                    kn = t.unique_names[k] if k < len(t.unique_names) else 'PRIMARY'
                    raise IntegrityError(1062, "Duplicate entry '%s' for key '%s.%s'" % ('-'.join(str(new[c]) for c in cols), t.name, kn))
            self.check_fks(t, new, delta)
            for child, ccols, refcols, _ in t.children:
                if any(c in delta for c in refcols):
                    raise Unsupported(f'update of referenced key {t.name}({refcols})')
            self._log(('upd', t, row, {c: old[c] for c in delta}))
            t.raw_update(row, delta)
        for trg in db.triggers.get((t.name, 'AFTER', 'UPDATE'), ()):
            self.run_trigger(trg, dict(row), old)
        return bool(delta)

    def exec_update(self, ast, cache, frame, routine):
        _, frm, sets, where, order_by, limit = ast
        db = self.db
        self.need_lock()
        info = routine.info if routine is not None else None
        plan = cache.get('uplan')
        if plan is None:
            sel = Select()
            sel.frm = frm
            sel.where = where
            sel.columns = [(('lit', 1), None)]
            sel.order_by = order_by
            sel.limit = limit
            sp = SelectPlan(db.comp, sel, Scope(parent=None, routine=info))
            scope = sp.scope
            targets = {}  # source index -> [(col, fn)]
            for q, name, e in sets:
                lname = name.lower()
                if q is not None:
                    cand = [s for s in scope.sources if s.alias == q.lower()]
                else:
                    cand = [s for s in scope.sources if lname in s.cols and s.table is not None]
                if len(cand) != 1 or cand[0].table is None or lname not in cand[0].cols:
                    raise OperationalError(1054, f"Unknown or ambiguous column '{name}' in 'field list'")
                targets.setdefault(cand[0].index, []).append((lname, db.comp.expr(e, scope)))
            plan = cache['uplan'] = (sp, targets)
        sp, targets = plan
        matches = [c for _, c in sp.run_iter(None, frame, self)]
        affected = 0
        done = set()
        for c in matches:
            for idx in sorted(targets):
                row = c.rows[idx]
                if row is None or (idx, id(row)) in done:
                    continue
                done.add((idx, id(row)))
                t = sp.scope.sources[idx].table
                new = dict(row)
                rows2 = list(c.rows)
                rows2[idx] = new
                ectx = Ctx(rows2, None, frame, self)
                for col, f in targets[idx]:
                    new[col] = f(ectx)
                if self.update_row(t, row, new, frame):
                    affected += 1
        self.row_count = affected
        return affected

    # ---- DELETE -------------------------------------------------------------------------------
    def exec_delete(self, ast, cache, frame, routine):
        _, del_targets, frm, where, order_by, limit = ast
        db = self.db
        self.need_lock()
        info = routine.info if routine is not None else None
        plan = cache.get('dplan')
        if plan is None:
            sel = Select()
            sel.frm = frm
            sel.where = where
            sel.columns = [(('lit', 1), None)]
            sel.order_by = order_by
            sel.limit = limit
            sp = SelectPlan(db.comp, sel, Scope(parent=None, routine=info))
            if del_targets is None:
                idxs = [0]
            else:
                idxs = []
                for n in del_targets:
                    cand = [s for s in sp.scope.sources if s.alias == n.lower()]
                    if len(cand) != 1:
                        raise OperationalError(1109, f"Unknown table '{n}' in MULTI DELETE")
                    idxs.append(cand[0].index)
            plan = cache['dplan'] = (sp, idxs)
        sp, idxs = plan
        matches = [c for _, c in sp.run_iter(None, frame, self)]
        affected = 0
        done = set()
        for c in matches:
            for idx in idxs:
                row = c.rows[idx]
                if row is None or id(row) in done:
                    continue
                done.add(id(row))
                t = sp.scope.sources[idx].table
                if t is None:
                    raise Unsupported('delete from derived table')
                affected += self.delete_row(t, row)
        self.row_count = affected
        return affected

    def delete_row(self, t, row, cascade_depth=0):
        db = self.db
        if t.uniques:
            k = t.norm_key(t.uniques[0], row)
            if k is None or t.uidx[0].get(k) is not row:
                return 0  # already deleted through a cascade
        elif not any(r is row for r in t.rows):
            return 0
        for trg in db.triggers.get((t.name, 'BEFORE', 'DELETE'), ()):
            self.run_trigger(trg, None, dict(row))
        for child, ccols, refcols, on_delete in t.children:
            key = tuple(_nk(child, cc, row[rc]) for cc, rc in zip(ccols, refcols))
            if any(row[rc] is None for rc in refcols):
                continue
            kids = list(child.hash_index(tuple(ccols)).get(key, ()))
            if not kids:
                continue
            if on_delete == 'CASCADE':
                for k in kids:
                    self.delete_row(child, k, cascade_depth + 1)
            elif on_delete == 'SET NULL':
                for k in kids:
                    new = dict(k)
                    for cc in ccols:
                        new[cc] = None
                    self.update_row(child, k, new, None)
            else:
                raise IntegrityError(1451, f'Cannot delete or update a parent row: a foreign key constraint fails (`batch`.`{child.name}`)')
        pos = t.raw_delete(row)
        self._log(('del', t, row, pos))
        for trg in db.triggers.get((t.name, 'AFTER', 'DELETE'), ()):
            self.run_trigger(trg, None, dict(row))
        return 1

    # ---- routines -----------------------------------------------------------------------------
    def run_trigger(self, trg, new, old):
        fr = Frame(trg)
        fr.new = new
        fr.old = old
        self.db.routine_calls[trg.name] += 1
        saved = self.row_count
        try:
            self.exec_routine_stmt(trg, trg.ast['body'], fr)
        finally:
            self.row_count = saved

    def exec_call(self, ast, cache, frame, routine):
        _, name, args = ast
        db = self.db
        r = db.routines.get(('PROCEDURE', name.lower()))
        if r is None:
            raise OperationalError(1305, f'PROCEDURE batch.{name} does not exist')
        if self.depth == 0 and db.preempt_hook is None:
            self.need_lock()  # a CALL is one atomic step (DESIGN 2.2)
        # (with a preemption hook installed the lock is taken lazily - by the procedure's first locking read or write, as InnoDB
        #  does - so that the hook can be offered the points at which another session could really commit)
        if len(args) != len(r.params):
            raise OperationalError(1318, f'Incorrect number of arguments for PROCEDURE batch.{name}; expected {len(r.params)}, got {len(args)}')
        info = routine.info if routine is not None else None
        cargs = cache.get('cargs')
        if cargs is None:
            sc = Scope(parent=None, routine=info)
            cargs = cache['cargs'] = [db.comp.expr(a, sc) if m == 'IN' else None for a, (m, _, _) in zip(args, r.params)]
        fr = Frame(r)
        ctx = Ctx([], None, frame, self)
        binds = []
        for a, f, (m, n, t) in zip(args, cargs, r.params):
            fr.types[n] = t
            if m == 'IN':
                fr.vars[n] = t.convert(f(ctx), f"parameter '{n}'", strict=False)
            else:
                if a[0] == 'col' and a[1] is None and frame is not None and a[2].lower() in frame.vars:
                    binds.append((n, 'var', a[2].lower()))
                    fr.vars[n] = frame.vars[a[2].lower()] if m == 'INOUT' else None
                elif a[0] == 'uvar':
                    binds.append((n, 'uvar', a[1]))
                    fr.vars[n] = self.uvars.get(a[1]) if m == 'INOUT' else None
                else:
                    raise OperationalError(1414, f'OUT or INOUT argument for routine {name} is not a variable')
        db.routine_calls[r.name] += 1
        self.depth += 1
        try:
            self.exec_routine_stmt(r, r.ast['body'], fr)
        finally:
            self.depth -= 1
            for n, kind, target in binds:
                if kind == 'var':
                    self.set_var(frame, target, fr.vars[n])
                else:
                    self.uvars[target] = fr.vars[n]
        self.row_count = 0
        return 0

    def exec_block(self, routine, stmts, frame):
        for s in stmts:
            self.exec_routine_stmt(routine, s, frame)

    def exec_routine_stmt(self, routine, node, frame):
        tag = node[0]
        db = self.db
        if tag == 'block':
            n_handlers = len(frame.handlers)
            try:
                self.exec_block(routine, node[2], frame)
            except Leave as lv:
                if lv.label != node[1]:
                    raise
            finally:
                del frame.handlers[n_handlers:]
            return
        if tag == 'declare':
            t = SqlType(*node[2])
            v = None
            if node[3] is not None:
                f = routine.cache.get(id(node))
                if f is None:
                    f = routine.cache[id(node)] = db.comp.expr(node[3], routine.scope)
                v = f(Ctx([], None, frame, self))
            for n in node[1]:
                ln = n.lower()
                frame.types[ln] = t
                frame.vars[ln] = t.convert(v, f"variable '{n}'", strict=False)
            return
        if tag == 'cursor':
            frame.cursors[node[1].lower()] = [node, None, 0]
            return
        if tag == 'handler':
            frame.handlers.append(node)
            return
        if tag == 'if':
            for k, (cond, body) in enumerate(node[1]):
                f = routine.cache.get((id(node), k))
                if f is None:
                    f = routine.cache[(id(node), k)] = db.comp.expr(cond, routine.scope)
                if truth(f(Ctx([], None, frame, self))):
                    db.branch_hits[(routine.name, _pos(node, routine), k)] += 1
                    self.exec_block(routine, body, frame)
                    return
            db.branch_hits[(routine.name, _pos(node, routine), 'else')] += 1
            if node[2] is not None:
                self.exec_block(routine, node[2], frame)
            return
        if tag == 'loop':
            label = node[1]
            guard = 0
            while True:
                guard += 1
                if guard > 1_000_000:
                    raise Unsupported('runaway LOOP')
                try:
                    self.exec_block(routine, node[2], frame)
                except Leave as lv:
                    if lv.label == label:
                        return
                    raise
                except Iterate as it:
                    if it.label != label:
                        raise
        if tag == 'while':
            label = node[1]
            f = routine.cache.get(id(node))
            if f is None:
                f = routine.cache[id(node)] = db.comp.expr(node[2], routine.scope)
            guard = 0
            while truth(f(Ctx([], None, frame, self))):
                guard += 1
                if guard > 1_000_000:
                    raise Unsupported('runaway WHILE')
                try:
                    self.exec_block(routine, node[3], frame)
                except Leave as lv:
                    if lv.label == label:
                        return
                    raise
                except Iterate as it:
                    if it.label != label:
                        raise
            return
        if tag == 'leave':
            raise Leave(node[1])
        if tag == 'iterate':
            raise Iterate(node[1])
        if tag == 'open':
            cur = frame.cursors[node[1].lower()]
            plan = routine.cache.get(id(cur[0]))
            if plan is None:
                plan = routine.cache[id(cur[0])] = SelectPlan(db.comp, cur[0][2], routine.scope)
            _, rows = plan.run(None, frame, self)
            cur[1] = rows
            cur[2] = 0
            return
        if tag == 'close':
            frame.cursors[node[1].lower()][1] = None
            return
        if tag == 'fetch':
            cur = frame.cursors[node[1].lower()]
            if cur[1] is None:
                raise OperationalError(1326, 'Cursor is not open')
            if cur[2] >= len(cur[1]):
                self._not_found(routine, frame, fetch=True)
                return
            r = cur[1][cur[2]]
            cur[2] += 1
            for n, v in zip(node[2], r):
                self.set_var(frame, n, v)
            return
        if tag == 'signal':
            msg = 'Unhandled user-defined exception condition'
            if node[2] is not None:
                f = routine.cache.get(id(node))
                if f is None:
                    f = routine.cache[id(node)] = db.comp.expr(node[2], routine.scope)
                msg = f(Ctx([], None, frame, self))
            raise OperationalError(1644, msg)
        if tag == 'return':
            f = routine.cache.get(id(node))
            if f is None:
                f = routine.cache[id(node)] = db.comp.expr(node[1], routine.scope)
            raise Return(f(Ctx([], None, frame, self)))
        # plain SQL statement inside a routine
        cache = routine.cache.get(id(node))
        if cache is None:
            cache = routine.cache[id(node)] = {}
        if tag in ('start', 'commit', 'rollback') and routine.kind != 'PROCEDURE':
            raise OperationalError(1422, 'Explicit or implicit commit is not allowed in stored function or trigger.')
        hook = db.preempt_hook
        if hook is not None and self.depth == 1 and routine.kind == 'PROCEDURE' and self.in_txn and db.lock_owner is not self and not self.wrote and tag != 'start':
            # inside the procedure's transaction, but so far it has only made non-locking reads (no FOR UPDATE / LOCK IN SHARE MODE,
            # no write): it holds no lock, so another session can commit here before this statement runs
            self.preempt_point = 'before-a-statement-while-holding-no-lock'
            hook(self, routine)
        try:
            self.exec_stmt(node, cache, frame, routine)
        except NotFound:
            self._not_found(routine, frame, fetch=False)

    def _not_found(self, routine, frame, fetch):
        for h in reversed(frame.handlers):
            if 'NOT FOUND' in h[2] or 'SQLSTATE 02000' in h[2]:
                if h[1] != 'CONTINUE':
                    raise Unsupported('EXIT handler')
                self.exec_routine_stmt(routine, h[3], frame)
                return
        if fetch:
            raise OperationalError(1329, 'No data - zero rows fetched, selected, or processed')
        # SELECT ... INTO with no rows and no handler: warning 1329 only; variables unchanged


def _nk(t, col, v):
    if isinstance(v, str) and not t.columns[col].cs:
        from .values import ci_key

        return ci_key(v)
    return v


def _pos(node, routine):
    # stable identifier of an IF inside a routine: index in a pre-order walk
    m = getattr(routine, '_ifpos', None)
    if m is None:
        m = routine._ifpos = {}
        counter = [0]

        def walk(n):
            if not isinstance(n, tuple):
                return
            if n and n[0] == 'if':
                m[id(n)] = counter[0]
                counter[0] += 1
                for _, body in n[1]:
                    for s in body:
                        walk(s)
                for s in n[2] or []:
                    walk(s)
            elif n and n[0] in ('block', 'loop'):
                for s in n[2]:
                    walk(s)
            elif n and n[0] == 'while':
                for s in n[3]:
                    walk(s)
            elif n and n[0] == 'handler':
                walk(n[3])
        walk(routine.ast['body'])
    return m.get(id(node), -1)


class LockWouldBlock(Exception):
    """raised when a statement needs the global write lock while another connection holds it; the
    aiomysql shim awaits the lock and retries the statement (nothing has been executed yet)."""
