"""SELECT planning and execution (nested-loop joins with hash-index lookups on equality conjuncts)."""
from decimal import Decimal

import pymysql

from .compile import Compiler, Ctx, Scope
from .values import Unsupported, ci_key, compare, to_number, truth

OperationalError = pymysql.err.OperationalError
ProgrammingError = pymysql.err.ProgrammingError

_EMPTY = object()
_SCAN = object()


def _norm_for(col):
    kind = col.type.kind
    cs = col.cs
    if kind == 'int':
        def norm(v):
            if v is None:
                return _EMPTY
            if isinstance(v, bool):
                return int(v)
            if isinstance(v, int):
                return v
            if isinstance(v, str):
                v = to_number(v)
            if isinstance(v, (float, Decimal)):
                if v != v:
                    return _EMPTY
                return int(v) if v == int(v) else _EMPTY
            if isinstance(v, int):
                return v
            return _SCAN
        return norm
    if kind == 'str':
        def norm(v):
            if v is None:
                return _EMPTY
            if isinstance(v, str):
                return v if cs else ci_key(v)
            return _SCAN
        return norm
    return lambda v: _EMPTY if v is None else _SCAN


def conjuncts(node):
    if node is None:
        return []
    if node[0] == 'and':
        return conjuncts(node[1]) + conjuncts(node[2])
    return [node]


def norm_key_value(v):
    if isinstance(v, str):
        return ci_key(v)
    if isinstance(v, Decimal):
        return int(v) if v == v.to_integral_value() else float(v)
    if isinstance(v, bool):
        return int(v)
    return v


def sort_key(v):
    # NULL first ascending; numbers before strings (homogeneous in practice)
    if v is None:
        return (0, 0)
    if isinstance(v, str):
        return (2, ci_key(v))
    if isinstance(v, (int, float, Decimal)):
        return (1, v)
    return (3, str(v))


class SelectPlan:
    def __init__(self, comp, sel, parent_scope, extra_ctes=None):
        self.comp = comp
        self.sel = sel
        scope = self.scope = Scope(parent=parent_scope)
        scope.ctes = dict(getattr(parent_scope, 'ctes', {}) or {}) if parent_scope is not None else {}
        if extra_ctes:
            scope.ctes.update(extra_ctes)
        for name, cols, csel in sel.ctes:
            cscope_parent = Scope(parent=parent_scope)
            cscope_parent.sources = []
            cscope_parent.ctes = dict(scope.ctes)
            plan = SelectPlan(comp, csel, parent_scope, extra_ctes=scope.ctes)
            if cols:
                plan.names = list(cols)
            scope.ctes[name.lower()] = plan
        self.gen = self.build_from(sel.frm) if sel.frm is not None else None
        self.n_sources = len(scope.sources)
        self.where = comp.expr(sel.where, scope) if sel.where is not None else None
        # select list
        self.is_agg = bool(sel.group_by) or any(comp.has_aggregate(e) for e, _ in sel.columns) or \
            (sel.having is not None and comp.has_aggregate(sel.having)) or any(comp.has_aggregate(e) for e, _ in sel.order_by)
        scope.allow_agg = True
        self.names = getattr(self, 'names', None)
        names = []
        self.cols = []
        self.col_tables = []
        star_cols = {}
        for e, alias in sel.columns:
            if e[0] == 'star':
                q = e[1].lower() if e[1] else None
                found = False
                for s in scope.sources:
                    if q is None or s.alias == q:
                        found = True
                        for lname, (name, cs) in s.cols.items():
                            self.cols.append(comp._col_closure(0, s.index, lname, cs))
                            star_cols.setdefault(lname, []).append(self.cols[-1])
                            names.append(name)
                            self.col_tables.append(s.alias)
                if not found:
                    raise OperationalError(1051, f"Unknown table '{e[1]}'")
                continue
            f = comp.expr(e, scope)
            self.cols.append(f)
            ref = getattr(f, 'colref', None)
            self.col_tables.append(scope.sources[ref[1]].alias if (e[0] == 'col' and ref is not None and ref[0] == 0) else '')
            if alias is not None:
                names.append(alias)
                scope.aliases[alias.lower()] = f
            elif e[0] == 'col':
                names.append(e[2])
                scope.aliases.setdefault(e[2].lower(), f)
            else:
                names.append(_expr_text(e))
        if self.names is None:
            self.names = names
        self.group_by = [self._positional(e, True) for e in sel.group_by]
        scope.group_cols = {e[2].lower() for e in sel.group_by if e[0] == 'col'}
        explicit = {a.lower() for _, a in sel.columns if a is not None}
        saved = scope.aliases
        scope.aliases = {k: f for k, f in saved.items() if k in explicit}  # only explicit aliases pre-empt FROM columns in HAVING
        try:
            self.having = comp.expr(sel.having, scope, 'having') if sel.having is not None else None
        finally:
            scope.aliases = saved
        # ORDER BY looks an unqualified name up among the output columns first: a column produced by `t.*` counts,
        # provided the name occurs once in the select list
        lnames = [n.lower() for n in names]
        added = [ln for ln, fs in star_cols.items() if len(fs) == 1 and lnames.count(ln) == 1 and ln not in scope.aliases]
        for ln in added:
            scope.aliases[ln] = star_cols[ln][0]
        try:
            self.order_by = [(self._positional(e, 'first'), desc) for e, desc in sel.order_by]
        finally:
            for ln in added:
                del scope.aliases[ln]
        scope.allow_agg = False
        self.limit = comp.expr(sel.limit, Scope(parent=None, routine=scope.routine)) if sel.limit is not None else None
        self.offset = comp.expr(sel.offset, Scope(parent=None, routine=scope.routine)) if sel.offset is not None else None
        self.unions = [(al, SelectPlan(comp, s, parent_scope, extra_ctes=scope.ctes)) for al, s in sel.unions]
        self.lock = sel.lock

    def _positional(self, e, aa):
        if e[0] == 'lit' and isinstance(e[1], int) and not isinstance(e[1], bool):
            return self.cols[e[1] - 1]
        return self.comp.expr(e, self.scope, aa)

    # ---- FROM -----------------------------------------------------------------------------
    def _eq_lookup(self, src, cond_nodes):
        """hash-index candidates for base-table source `src` from equality conjuncts whose other
        side only references earlier sources / outer levels / variables."""
        comp, scope = self.comp, self.scope
        t = src.table
        eqs = []
        for n in cond_nodes:
            if n[0] != 'bin' or n[1] != '=':
                continue
            for a, b in ((n[2], n[3]), (n[3], n[2])):
                if a[0] != 'col':
                    continue
                try:
                    fa = comp.resolve_col(a[1], a[2], scope)
                except Exception:
                    continue
                ref = getattr(fa, 'colref', None)
                if ref is None or ref[0] != 0 or ref[1] != src.index:
                    continue
                refs = comp.refs_level0(b, scope)
                if refs is None or any(i >= src.index for i in refs):
                    continue
                try:
                    fb = comp.expr(b, scope)
                except Exception:
                    continue
                col = t.columns[ref[2]]
                if col.type.kind not in ('int', 'str'):
                    continue
                if col.type.kind == 'str' and not col.cs and getattr(fb, 'cs', False):
                    continue  # comparison would be case-sensitive: index is ci -> superset still fine
                eqs.append((ref[2], fb, _norm_for(col)))
                break
        if not eqs:
            return None
        # dedupe columns
        seen = set()
        uniq = []
        for c, f, nm in eqs:
            if c not in seen:
                seen.add(c)
                uniq.append((c, f, nm))
        cols = tuple(c for c, _, _ in uniq)

        def cand(ctx):
            key = []
            for _, f, nm in uniq:
                v = nm(f(ctx))
                if v is _EMPTY:
                    return ()
                if v is _SCAN:
                    return t.rows
                key.append(v)
            return t.hash_index(cols).get(tuple(key), ())
        return cand

    def build_from(self, node, join_cond=None, first=True):
        comp, scope = self.comp, self.scope
        kind = node[0]
        if kind == 'table':
            name = node[1].lower()
            alias = (node[2] or node[1]).lower()
            cte = scope.ctes.get(name)
            if cte is not None:
                cols = {n.lower(): (n, False) for n in cte.names}
                src = scope.add(alias, cols, None)
                i = src.index
                lnames = [n.lower() for n in cte.names]

                def gen(ctx):
                    _, rows = cte.run(ctx.outer, ctx.frame, ctx.conn)
                    for r in rows:
                        ctx.rows[i] = dict(zip(lnames, r))
                        yield
                return gen
            t = comp.db.tables.get(name)
            if t is None:
                raise ProgrammingError(1146, f"Table 'batch.{node[1]}' doesn't exist")
            cols = {c: (c, col.cs) for c, col in t.columns.items()}
            src = scope.add(alias, cols, t)
            i = src.index
            conds = conjuncts(join_cond) if join_cond is not None else (conjuncts(self.sel.where) if first else [])
            cand = self._eq_lookup(src, conds) if conds else None
            if cand is None:
                def gen(ctx):
                    rows = ctx.rows
                    for r in list(t.rows):
                        rows[i] = r
                        yield
            else:
                def gen(ctx):
                    rows = ctx.rows
                    for r in list(cand(ctx)):
                        rows[i] = r
                        yield
            gen.indexes = [i]
            return gen
        if kind == 'derived':
            sel, alias, lateral = node[1], node[2], node[3]
            if lateral:
                plan = SelectPlan(comp, sel, scope)
            else:
                plan = SelectPlan(comp, sel, scope.parent, extra_ctes=scope.ctes)
            cols = {n.lower(): (n, False) for n in plan.names}
            src = scope.add(alias, cols, None)
            i = src.index
            lnames = [n.lower() for n in plan.names]
            if lateral:
                def gen(ctx):
                    _, rows = plan.run(ctx, ctx.frame, ctx.conn)
                    for r in rows:
                        ctx.rows[i] = dict(zip(lnames, r))
                        yield
            else:
                def gen(ctx):
                    _, rows = plan.run(ctx.outer, ctx.frame, ctx.conn)
                    for r in rows:
                        ctx.rows[i] = dict(zip(lnames, r))
                        yield
            gen.indexes = [i]
            return gen
        if kind == 'join':
            jk, left, right, on, using = node[1], node[2], node[3], node[4], node[5]
            lg = self.build_from(left, None, first)
            n_before = len(scope.sources)
            if using:
                # rewrite USING as equality between the first left source having the column and the right source
                rg = self.build_from(right, None, False)
                parts = None
                for c in using:
                    scope.using.add(c.lower())
                    lsrc = next((s for s in scope.sources[:n_before] if c.lower() in s.cols), None)
                    rsrc = next((s for s in scope.sources[n_before:] if c.lower() in s.cols), None)
                    if lsrc is None or rsrc is None:
                        raise OperationalError(1054, f"Unknown column '{c}' in 'from clause'")
                    e = ('bin', '=', ('col', lsrc.alias, c), ('col', rsrc.alias, c))
                    parts = e if parts is None else ('and', parts, e)
                on = parts
            else:
                rg = self.build_from(right, on if right[0] == 'table' else None, False)
            right_idx = list(range(n_before, len(scope.sources)))
            onf = comp.expr(on, scope) if on is not None else None
            if jk == 'inner':
                if onf is None:
                    def gen(ctx):
                        for _ in lg(ctx):
                            yield from rg(ctx)
                else:
                    def gen(ctx):
                        for _ in lg(ctx):
                            for _ in rg(ctx):
                                if truth(onf(ctx)):
                                    yield
            elif jk == 'left':
                def gen(ctx):
                    rows = ctx.rows
                    for _ in lg(ctx):
                        matched = False
                        for _ in rg(ctx):
                            if onf is None or truth(onf(ctx)):
                                matched = True
                                yield
                        if not matched:
                            for k in right_idx:
                                rows[k] = None
                            yield
            else:
                raise Unsupported('join kind ' + jk)
            return gen
        raise Unsupported('from item ' + kind)

    # ---- execution -------------------------------------------------------------------------
    def run(self, outer, frame, conn, limit_hint=None):
        return self.names, [vals for vals, _ in self.run_iter(outer, frame, conn, limit_hint)]

    def run_iter(self, outer, frame, conn, limit_hint=None):
        if self.unions:
            seen = set()
            all_all = all(al for al, _ in self.unions)
            out = []
            for vals, c in self._run_core(outer, frame, conn, None):
                out.append((vals, c))
            for al, p in self.unions:
                for vals, c in p.run_iter(outer, frame, conn):
                    out.append((vals, c))
            if not all_all:
                ded = []
                for vals, c in out:
                    k = tuple(norm_key_value(v) for v in vals)
                    if k not in seen:
                        seen.add(k)
                        ded.append((vals, c))
                out = ded
            yield from out
            return
        yield from self._run_core(outer, frame, conn, limit_hint)

    def _run_core(self, outer, frame, conn, limit_hint):
        ctx = Ctx([None] * self.n_sources, outer, frame, conn)
        where = self.where
        cols = self.cols
        limit = offset = None
        if self.limit is not None:
            limit = int(to_number(self.limit(ctx)))
        if self.offset is not None:
            offset = int(to_number(self.offset(ctx)))
        streaming = not self.is_agg and not self.order_by and not self.sel.distinct
        if streaming:
            # evaluate the select list row by row, in scan order (user-variable assignments interleave
            # with the consumer, as INSERT ... SELECT ... ON DUPLICATE KEY UPDATE relies on)
            n_out = 0
            skipped = 0
            if self.gen is None:
                if where is None or truth(where(ctx)):
                    if not (offset and offset > 0) and (limit is None or limit > 0):
                        yield tuple(f(ctx) for f in cols), ctx
                return
            for _ in self.gen(ctx):
                if where is not None and not truth(where(ctx)):
                    continue
                if offset and skipped < offset:
                    skipped += 1
                    continue
                if limit is not None and n_out >= limit:
                    return
                rctx = Ctx(list(ctx.rows), outer, frame, conn)
                yield tuple(f(rctx) for f in cols), rctx
                n_out += 1
                if limit_hint is not None and n_out >= limit_hint:
                    return
            return
        base = []
        if self.gen is None:
            if where is None or truth(where(ctx)):
                base.append([])
        else:
            for _ in self.gen(ctx):
                if where is None or truth(where(ctx)):
                    base.append(list(ctx.rows))
        out = []  # (vals, ctx, orderkeys)
        if self.is_agg:
            if self.group_by:
                groups = {}
                order = []
                for rows in base:
                    rctx = Ctx(rows, outer, frame, conn)
                    k = tuple(norm_key_value(g(rctx)) for g in self.group_by)
                    if k not in groups:
                        groups[k] = []
                        order.append(k)
                    groups[k].append(rows)
                glist = [groups[k] for k in order]
            else:
                glist = [base]
            lazy = not self.order_by and not self.sel.distinct
            n_out = 0
            skipped = 0
            for g in glist:
                first = g[0] if g else [None] * self.n_sources
                gctx = Ctx(first, outer, frame, conn, grp=g)
                if self.having is not None and not truth(self.having(gctx)):
                    continue
                if lazy:
                    if offset and skipped < offset:
                        skipped += 1
                        continue
                    if limit is not None and n_out >= limit:
                        return
                    yield tuple(f(gctx) for f in cols), gctx
                    n_out += 1
                else:
                    vals = tuple(f(gctx) for f in cols)
                    out.append((vals, gctx, [o(gctx) for o, _ in self.order_by]))
            if lazy:
                return
        else:
            for rows in base:
                rctx = Ctx(rows, outer, frame, conn)
                vals = tuple(f(rctx) for f in cols)
                out.append((vals, rctx, [o(rctx) for o, _ in self.order_by]))
        if self.sel.distinct:
            seen = set()
            ded = []
            for item in out:
                k = tuple(norm_key_value(v) for v in item[0])
                if k not in seen:
                    seen.add(k)
                    ded.append(item)
            out = ded
        for j in range(len(self.order_by) - 1, -1, -1):
            desc = self.order_by[j][1]
            out.sort(key=lambda it: sort_key(it[2][j]), reverse=desc)
        if offset:
            out = out[offset:]
        if limit is not None:
            out = out[:limit]
        for vals, c, _ in out:
            yield vals, c


def _expr_text(e):
    tag = e[0]
    if tag == 'lit':
        return 'NULL' if e[1] is None else str(e[1])
    if tag == 'col':
        return e[2]
    if tag == 'func':
        return f"{e[1]}({', '.join(_expr_text(a) for a in e[2])})" if not e[4] else f'{e[1]}(*)'
    if tag == 'uvar':
        return '@' + e[1]
    if tag == 'assign':
        return f'@{e[1]} := ' + _expr_text(e[2])
    if tag == 'bin':
        return f'{_expr_text(e[2])} {e[1]} {_expr_text(e[3])}'
    return tag


def _select(self, sel, parent_scope):
    return SelectPlan(self, sel, parent_scope)


Compiler.select = _select
