"""Value semantics: comparison, arithmetic, collation, conversion (MySQL 8 rules used by the batch SQL)."""
import datetime
import math
import re
import unicodedata
from decimal import Decimal
from functools import lru_cache

import pymysql


class Unsupported(Exception):
    """construct outside the implemented dialect: the check must report INCONCLUSIVE, never guess"""


def err(cls, code, msg):
    return cls(code, msg)


@lru_cache(maxsize=65536)
def ci_key(s: str) -> str:
    # utf8mb4_0900_ai_ci approximation: case-insensitive, accent-insensitive, NO PAD
    if s.isascii():
        return s.lower()
    d = unicodedata.normalize('NFKD', s)
    return ''.join(c for c in d if not unicodedata.combining(c)).casefold()


_NUMPREFIX = re.compile(r'\s*[+-]?(?:\d+\.?\d*(?:[eE][+-]?\d+)?|\.\d+(?:[eE][+-]?\d+)?)')


def to_number(v):
    """MySQL implicit string->number: longest numeric prefix, else 0."""
    if v is None:
        return None
    if isinstance(v, bool):
        return int(v)
    if isinstance(v, (int, float, Decimal)):
        return v
    if isinstance(v, str):
        m = _NUMPREFIX.match(v)
        if not m:
            return 0
        t = m.group(0).strip()
        try:
            if re.fullmatch(r'[+-]?\d+', t):
                return int(t)
            return float(t)
        except ValueError:
            return 0
    if isinstance(v, (datetime.date, datetime.datetime)):
        return int(v.strftime('%Y%m%d'))
    if isinstance(v, bytes):
        return to_number(v.decode('utf-8', 'replace'))
    raise Unsupported(f'to_number({type(v).__name__})')


def is_num(v):
    return isinstance(v, (int, float, Decimal))


def compare(a, b, cs=False):
    """-1/0/1 or None (NULL)."""
    if a is None or b is None:
        return None
    if isinstance(a, str) and isinstance(b, str):
        if not cs:
            a, b = ci_key(a), ci_key(b)
        return (a > b) - (a < b)
    if isinstance(a, (datetime.date, datetime.datetime)) or isinstance(b, (datetime.date, datetime.datetime)):
        a, b = to_date(a), to_date(b)
        if a is None or b is None:
            return None
        return (a > b) - (a < b)
    if isinstance(a, tuple) and isinstance(b, tuple):
        if len(a) != len(b):
            raise err(pymysql.err.OperationalError, 1241, 'Operand should contain %d column(s)' % len(a))
        for x, y in zip(a, b):
            c = compare(x, y, cs)
            if c is None:
                return None
            if c != 0:
                return c
        return 0
    a, b = to_number(a), to_number(b)
    if isinstance(a, float) or isinstance(b, float):
        a, b = float(a), float(b)
    return (a > b) - (a < b)


def to_date(v):
    if v is None:
        return None
    if isinstance(v, datetime.datetime):
        return v.date()
    if isinstance(v, datetime.date):
        return v
    if isinstance(v, str):
        m = re.match(r'\s*(\d{4})-(\d{1,2})-(\d{1,2})', v)
        if m:
            try:
                return datetime.date(int(m.group(1)), int(m.group(2)), int(m.group(3)))
            except ValueError:
                return None
        m = re.match(r'\s*(\d{4})(\d{2})(\d{2})$', v)
        if m:
            try:
                return datetime.date(int(m.group(1)), int(m.group(2)), int(m.group(3)))
            except ValueError:
                return None
        return None
    if isinstance(v, int):
        return to_date(str(v))
    return None


def truth(v):
    """SQL truth value: True / False / None."""
    if v is None:
        return None
    if isinstance(v, str):
        v = to_number(v)
    return v != 0


def _num2(a, b):
    a, b = to_number(a), to_number(b)
    if isinstance(a, float) or isinstance(b, float):
        return float(a), float(b)
    return a, b


def arith(op, a, b):
    if a is None or b is None:
        return None
    a, b = _num2(a, b)
    if op == '+':
        return a + b
    if op == '-':
        return a - b
    if op == '*':
        return a * b
    if op == '/':
        if b == 0:
            return None
        if isinstance(a, float):
            return a / b
        return Decimal(a) / Decimal(b)
    if op == 'DIV':
        if b == 0:
            return None
        q = Decimal(a) / Decimal(b) if not isinstance(a, float) else a / b
        return int(q)  # truncation toward zero
    if op in ('%', 'MOD'):
        if b == 0:
            return None
        r = math.fmod(a, b) if isinstance(a, float) else abs(a) % abs(b) * (1 if a >= 0 else -1)
        return r
    raise Unsupported(f'arith {op}')


_U64 = (1 << 64) - 1


def bitop(op, a, b):
    if a is None or b is None:
        return None
    a = int(to_number(a)) & _U64
    b = int(to_number(b))
    if op == '&':
        return a & (b & _U64)
    if op == '|':
        return a | (b & _U64)
    if op == '^':
        return a ^ (b & _U64)
    if op == '<<':
        return (a << b) & _U64 if 0 <= b < 64 else 0
    if op == '>>':
        return a >> b if 0 <= b < 64 else 0
    raise Unsupported(op)


def like_to_regex(pat):
    out = []
    i = 0
    while i < len(pat):
        c = pat[i]
        if c == '\\' and i + 1 < len(pat):
            out.append(re.escape(pat[i + 1]))
            i += 2
            continue
        if c == '%':
            out.append('.*')
        elif c == '_':
            out.append('.')
        else:
            out.append(re.escape(c))
        i += 1
    return re.compile(''.join(out), re.S)


INT_RANGES = {
    'TINYINT': (-128, 127), 'BOOLEAN': (-128, 127), 'BOOL': (-128, 127), 'SMALLINT': (-32768, 32767),
    'MEDIUMINT': (-8388608, 8388607), 'INT': (-2**31, 2**31 - 1), 'INTEGER': (-2**31, 2**31 - 1), 'BIGINT': (-2**63, 2**63 - 1),
    'SIGNED': (-2**63, 2**63 - 1), 'UNSIGNED': (0, 2**64 - 1),
}
STR_TYPES = {'VARCHAR': None, 'CHAR': None, 'TEXT': 65535, 'MEDIUMTEXT': 16777215, 'LONGTEXT': 4294967295, 'TINYTEXT': 255, 'ENUM': None,
             'JSON': None, 'BLOB': 65535, 'MEDIUMBLOB': 16777215, 'LONGBLOB': 4294967295, 'VARBINARY': None, 'BINARY': None}
FLOAT_TYPES = {'DOUBLE', 'FLOAT', 'REAL', 'DECIMAL', 'NUMERIC'}


class SqlType:
    __slots__ = ('name', 'kind', 'lo', 'hi', 'maxlen', 'enum')

    def __init__(self, name, args=None):
        name = name.upper()
        self.name = name
        self.lo = self.hi = self.maxlen = self.enum = None
        if name in INT_RANGES:
            self.kind = 'int'
            self.lo, self.hi = INT_RANGES[name]
        elif name in FLOAT_TYPES:
            self.kind = 'float' if name not in ('DECIMAL', 'NUMERIC') else 'decimal'
        elif name in STR_TYPES:
            self.kind = 'str'
            self.maxlen = STR_TYPES[name]
            if name in ('VARCHAR', 'CHAR', 'VARBINARY', 'BINARY') and args:
                self.maxlen = int(args[0])
            if name == 'ENUM':
                self.enum = [str(a) for a in (args or [])]
        elif name == 'DATE':
            self.kind = 'date'
        elif name in ('DATETIME', 'TIMESTAMP'):
            self.kind = 'datetime'
        else:
            raise Unsupported(f'type {name}')

    def convert(self, v, what='value', strict=True):
        """assignment conversion (A2); strict sql_mode errors"""
        if v is None:
            return None
        k = self.kind
        if k == 'int':
            if isinstance(v, bool):
                v = int(v)
            elif isinstance(v, int):
                pass
            elif isinstance(v, (float, Decimal)):
                if isinstance(v, float) and (math.isnan(v) or math.isinf(v)):
                    raise err(pymysql.err.DataError, 1264, f"Out of range value for {what}")
                v = int(Decimal(v).to_integral_value(rounding='ROUND_HALF_UP')) if isinstance(v, Decimal) else int(round(v))
            elif isinstance(v, str):
                m = _NUMPREFIX.fullmatch(v.strip()) if v.strip() else None
                if m is None:
                    if strict:
                        raise err(pymysql.err.DataError, 1366, f"Incorrect integer value: '{v[:40]}' for {what}")
                    v = int(to_number(v))
                else:
                    n = to_number(v)
                    v = int(round(n)) if isinstance(n, float) else int(n)
            else:
                raise Unsupported(f'convert {type(v).__name__} to int')
            if v < self.lo or v > self.hi:
                raise err(pymysql.err.DataError, 1264, f"Out of range value for {what}")
            return v
        if k == 'float':
            if isinstance(v, str):
                if _NUMPREFIX.fullmatch(v.strip() or 'x') is None and strict:
                    raise err(pymysql.err.DataError, 1366, f"Incorrect double value: '{v[:40]}' for {what}")
            return float(to_number(v))
        if k == 'decimal':
            n = to_number(v)
            return Decimal(str(n)) if isinstance(n, float) else Decimal(n)
        if k == 'str':
            if isinstance(v, bool):
                v = str(int(v))
            elif isinstance(v, (int, Decimal)):
                v = str(v)
            elif isinstance(v, float):
                v = repr(v)
            elif isinstance(v, (datetime.date, datetime.datetime)):
                v = v.isoformat()
            elif isinstance(v, bytes):
                v = v.decode('utf-8', 'replace')
            elif not isinstance(v, str):
                raise Unsupported(f'convert {type(v).__name__} to str')
            if self.enum is not None:
                for e in self.enum:
                    if ci_key(e) == ci_key(v):
                        return e
                raise err(pymysql.err.DataError, 1265, f"Data truncated for {what}")
            if self.maxlen is not None and len(v) > self.maxlen:
                # VARCHAR(n) counts characters; TEXT types count bytes
                if self.name in ('VARCHAR', 'CHAR') or len(v.encode('utf-8')) > self.maxlen:
                    if self.name in ('VARCHAR', 'CHAR'):
                        if strict:
                            raise err(pymysql.err.DataError, 1406, f"Data too long for {what}")
                        return v[:self.maxlen]
                    if strict:
                        raise err(pymysql.err.DataError, 1406, f"Data too long for {what}")
            return v
        if k == 'date':
            d = to_date(v)
            if d is None:
                raise err(pymysql.err.DataError, 1292, f"Incorrect date value for {what}")
            return d
        if k == 'datetime':
            if isinstance(v, datetime.datetime):
                return v
            if isinstance(v, datetime.date):
                return datetime.datetime(v.year, v.month, v.day)
            raise Unsupported('datetime conversion')
        raise Unsupported(k)
