"""Process bootstrap for every check: environment, sys.path, shims.

Import this module (``import vf.bootstrap``) *before* importing anything from /repo.
Nothing is copied or cached: repo packages are imported straight from the working tree.
"""
import os
import sys
import types

REPO = os.environ.get('VERIF_REPO', '/repo')
VERIF = os.path.dirname(os.path.dirname(os.path.abspath(__file__)))
DEPS = os.path.join(VERIF, '.deps')

os.environ.setdefault('PYTHONDONTWRITEBYTECODE', '1')
sys.dont_write_bytecode = True

# environment the batch / gear modules read at import time
_ENV = {
    'CLOUD': 'gcp',
    'HAIL_DEFAULT_NAMESPACE': 'default',
    'HAIL_SCOPE': 'deploy',
    'HAIL_DOCKER_ROOT_IMAGE': 'ubuntu:22.04',
    'HAIL_DOCKER_PREFIX': 'docker.invalid/hail',
    'KUBERNETES_SERVER_URL': 'https://k8s.invalid',
    'INTERNAL_GATEWAY_IP': '10.0.0.1',
    'HAIL_BATCH_STORAGE_URI': 'gs://verif-bucket/batch',
    'HAIL_SHA': 'deadbeef',
    'HAIL_BATCH_GCP_REGIONS': '["us-central1", "us-east1"]',
    'HAIL_BATCH_REGIONS': '["us-central1", "us-east1"]',
    'HAIL_GCP_PROJECT': 'verif-project',
    'HAIL_GCP_REGION': 'us-central1',
    'HAIL_GCP_ZONE': 'us-central1-a',
    'HAIL_DOMAIN': 'hail.invalid',
    'HAIL_HAIL_BASE_IMAGE': 'hail-base',
    'HAIL_CI_UTILS_IMAGE': 'ci-utils',
    'HAIL_BUILDKIT_IMAGE': 'buildkit',
    'HAIL_CI_STORAGE_URI': 'gs://verif-bucket/ci',
    'HAIL_CI_GITHUB_CONTEXT': 'ci-test',
    'HAIL_DEFAULT_NAMESPACE_NAME': 'default',
    'HAIL_QUERY_N_CORES': '1',
    'HAIL_DONT_RETRY_500': '0',
    'HAIL_QUERY_STORAGE_URI': 'gs://verif-bucket/query',
    'HAIL_QUERY_ACCEPTABLE_JAR_SUBFOLDER': '/jars',
    'HAIL_BATCH_WORKER_IMAGE': 'batch-worker',
    'HAIL_SSH_PUBLIC_KEY': '/dev/null',
    'HAIL_AZURE_OAUTH_SCOPE': 'scope',
    'BATCH_WORKER_IMAGE': 'batch-worker',
    'BATCH_WORKER_IMAGE_ID': 'wid',
    'DOCKER_PREFIX': 'docker.invalid/hail',
}
for _k, _v in _ENV.items():
    os.environ.setdefault(_k, _v)
# hail's deploy config: never read ~/.hail or /deploy-config
os.environ.setdefault('HAIL_DEPLOY_CONFIG_FILE', os.path.join(VERIF, 'vf', 'shims', 'deploy-config.json'))

_REPO_PATHS = [
    os.path.join(REPO, 'hail', 'python'),
    os.path.join(REPO, 'gear'),
    os.path.join(REPO, 'web_common'),
    os.path.join(REPO, 'batch'),
    os.path.join(REPO, 'auth'),
    os.path.join(REPO, 'ci'),
]
for _p in reversed(_REPO_PATHS):
    if _p not in sys.path:
        sys.path.insert(0, _p)
if os.path.isdir(DEPS) and DEPS not in sys.path:
    sys.path.append(DEPS)
if VERIF not in sys.path:
    sys.path.insert(0, VERIF)


def _install_version_stubs():
    for name, pkg in (('hailtop.version', 'hailtop'), ('hail.version', 'hail')):
        path = os.path.join(REPO, 'hail', 'python', *name.split('.')) + '.py'
        if os.path.exists(path):
            continue
        m = types.ModuleType(name)
        m.__version__ = '0.2.0-verif'
        m.__pip_version__ = '0.2.0'
        m.__revision__ = 'deadbeef'
        m.__file__ = '<verif stub>'
        sys.modules[name] = m


_install_version_stubs()

from vf.shims import install as _install_shims  # noqa: E402

_install_shims()


def seed_global_config():
    """gear.cloud_config reads /global-config; pre-seed it."""
    import gear.cloud_config as cc

    cc.global_config = {
        'cloud': os.environ['CLOUD'],
        'gcp_project': 'verif-project',
        'gcp_region': 'us-central1',
        'gcp_zone': 'us-central1-a',
        'batch_gcp_regions': '["us-central1", "us-east1"]',
        'azure_subscription_id': 'sub',
        'azure_resource_group': 'rg',
        'azure_location': 'eastus',
        'domain': 'hail.invalid',
        'docker_prefix': 'docker.invalid/hail',
        'default_namespace': 'default',
        'organization_domain': 'hail.invalid',
    }
