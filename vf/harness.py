"""Check harness: verdict discipline, sharding, evidence, replays, known findings.

A monitor module ``vf/monitors/cNN.py`` defines

    PID = 'C16'
    LEVEL = 'exploration' | 'fault_enumeration'
    RULE = '...how cases are generated, what is distinct / non-trivial...'
    ASSUMPTIONS = [...]
    SHARDS = {'quick': 1, 'thorough': 16}          (optional)
    FLOORS = {'counter_name': minimum, ...}        (optional; below floor => INCONCLUSIVE)
    def run(ctx): ...

``run`` is executed once per shard in a fresh subprocess; the parent merges the shard reports,
prints verdict lines, writes evidence/<PID>.json and returns the exit code
(0 held, 1 violation, 2 inconclusive).
"""
import hashlib
import importlib
import json
import os
import random
import subprocess
import sys
import time
import traceback
from collections import Counter

VERIF = os.path.dirname(os.path.dirname(os.path.abspath(__file__)))
EVIDENCE_DIR = os.environ.get('VERIF_EVIDENCE_DIR') or os.path.join(VERIF, 'evidence')
REPLAY_DIR = os.path.join(EVIDENCE_DIR, 'replays')
KNOWN_FINDINGS = os.path.join(VERIF, 'known_findings.json')
PY = '/venv/bin/python'

MAX_DISTINCT_SHIP = 400_000


class Inconclusive(Exception):
    pass


def _h64(*parts) -> int:
    h = hashlib.blake2b(repr(parts).encode('utf-8', 'backslashreplace'), digest_size=8)
    return int.from_bytes(h.digest(), 'big')


def jsonable(x, depth=0):
    if depth > 8:
        return repr(x)[:200]
    if x is None or isinstance(x, (bool, int, str)):
        return x
    if isinstance(x, float):
        if x != x or x in (float('inf'), float('-inf')):
            return repr(x)
        return x
    if isinstance(x, bytes):
        return {'__bytes__': x.hex() if len(x) <= 256 else x[:256].hex() + '...'}
    if isinstance(x, dict):
        return {str(k): jsonable(v, depth + 1) for k, v in list(x.items())[:200]}
    if isinstance(x, (list, tuple, set, frozenset)):
        return [jsonable(v, depth + 1) for v in list(x)[:200]]
    return repr(x)[:400]


class Ctx:
    def __init__(self, pid, tier, seed, shard, n_shards, replay=None):
        self.pid = pid
        self.tier = tier
        self.seed = seed
        self.shard = shard
        self.n_shards = n_shards
        self.replay = replay  # dict from a replay file or None
        self.evaluations = 0
        self.distinct = set()
        self.distinct_overflow = 0
        self.counters = Counter()
        self.samples = []
        self.violations = []  # dicts
        self.inconclusive = []
        self.notes = {}
        self.exhaustive = None
        self.t0 = time.time()
        self.case_index = None
        self._sample_every = 1
        self.deadline = None

    # ---- generation helpers -------------------------------------------------------------
    @property
    def quick(self):
        return self.tier == 'quick'

    def pick(self, quick, thorough):
        return quick if self.tier == 'quick' else thorough

    def rng(self, *name) -> random.Random:
        return random.Random(_h64(self.seed, self.shard, *name))

    def set_time_budget(self, seconds):
        self.deadline = self.t0 + seconds

    def out_of_time(self):
        return self.deadline is not None and time.time() > self.deadline

    def cases(self, n, phase='main'):
        """Yield (i, rng): independent per-case RNGs so that any case can be regenerated alone.
        In replay mode only the recorded case is produced."""
        if self.replay is not None:
            if self.replay.get('phase', 'main') != phase or self.replay.get('case_index') is None:
                return
            i = self.replay['case_index']
            self.case_index = (phase, i)
            yield i, random.Random(_h64(self.seed, self.shard, phase, i))
            self.case_index = None
            return
        for i in range(n):
            if self.out_of_time():
                self.counters[f'stopped_early_{phase}'] += 1
                break
            self.case_index = (phase, i)
            yield i, random.Random(_h64(self.seed, self.shard, phase, i))
        self.case_index = None

    # ---- recording -----------------------------------------------------------------------
    def case(self, sample=None, key=None, nontrivial=True):
        """Count one evaluated case; `key` is the abstraction under which cases are distinct."""
        self.evaluations += 1
        if nontrivial:
            k = _h64(key if key is not None else sample)
            if len(self.distinct) < MAX_DISTINCT_SHIP:
                self.distinct.add(k)
            elif k not in self.distinct:
                self.distinct_overflow += 1  # conservative: not counted
        if sample is not None and len(self.samples) < 6:
            if self.evaluations in (1, 2, 3) or self.evaluations % 997 == 0:
                self.samples.append(jsonable(sample))

    def count(self, name, n=1):
        self.counters[name] += n

    def seen(self, family, value):
        """Record a distinct observed value of a named family (e.g. state edges, SQL branches)."""
        self.notes.setdefault(family, set()).add(str(value))

    def violation(self, key, what, witness=None):
        """Report a violation with mechanism key `key` (classifier output)."""
        v = {
            'key': key,
            'what': what,
            'witness': jsonable(witness),
            'shard': self.shard,
            'phase': self.case_index[0] if self.case_index else None,
            'case_index': self.case_index[1] if self.case_index else None,
        }
        # keep at most 5 witnesses per key per shard
        n = sum(1 for x in self.violations if x['key'] == key)
        self.counters[f'violation[{key}]'] += 1
        if n < 5:
            self.violations.append(v)

    def inconclusive_because(self, reason):
        self.inconclusive.append(reason)

    def report(self):
        return {
            'shard': self.shard,
            'evaluations': self.evaluations,
            'distinct': sorted(self.distinct),
            'distinct_overflow': self.distinct_overflow,
            'counters': dict(self.counters),
            'samples': self.samples,
            'violations': self.violations,
            'inconclusive': self.inconclusive,
            'notes': {k: sorted(v) for k, v in self.notes.items()},
            'exhaustive': self.exhaustive,
            'wall_s': time.time() - self.t0,
        }


def load_known():
    try:
        with open(KNOWN_FINDINGS) as f:
            data = json.load(f)
    except FileNotFoundError:
        return {}
    known = {}
    for e in data.get('findings', []):
        if e.get('status') == 'known':
            known[(e['property'], e['key'])] = e
    return known


def _shard_main(modname, tier, seed, shard, n_shards, out_path, replay_path):
    import vf.bootstrap  # noqa: F401

    mod = importlib.import_module(modname)
    replay = None
    if replay_path:
        with open(replay_path) as f:
            replay = json.load(f)
    ctx = Ctx(mod.PID, tier, seed, shard, n_shards, replay)
    try:
        mod.run(ctx)
    except Inconclusive as e:
        ctx.inconclusive_because(str(e))
    except Exception:
        ctx.inconclusive_because('monitor crashed: ' + traceback.format_exc()[-1500:])
    from vf import shims

    rep = ctx.report()
    rep['stub_calls'] = dict(shims.stub_calls)
    with open(out_path, 'w') as f:
        json.dump(rep, f)


def run_check(modname, tier=None, seed=None, replay_path=None):
    t0 = time.time()
    tier = tier or os.environ.get('VERIF_TIER', 'quick')
    if tier not in ('quick', 'thorough'):
        tier = 'quick'
    seed = int(seed if seed is not None else os.environ.get('VERIF_SEED', '0') or 0)
    sys.path.insert(0, VERIF)
    import vf.bootstrap  # noqa: F401

    mod = importlib.import_module(modname)
    pid = mod.PID
    replay = None
    if replay_path:
        with open(replay_path) as f:
            replay = json.load(f)
        tier = replay.get('tier', tier)
        seed = replay.get('seed', seed)
    n_shards = getattr(mod, 'SHARDS', {'quick': 1, 'thorough': 16}).get(tier, 1)
    shards = list(range(n_shards))
    if replay is not None and replay.get('shard') is not None:
        shards = [replay['shard']]
    timeout = getattr(mod, 'TIMEOUT', {'quick': 600, 'thorough': 3600}).get(tier, 600)
    os.makedirs(REPLAY_DIR, exist_ok=True)
    if replay is None:
        for fn in os.listdir(REPLAY_DIR):  # witnesses of earlier runs of this property are stale
            if fn.startswith(pid + '-') and fn.endswith('.json'):
                try:
                    os.unlink(os.path.join(REPLAY_DIR, fn))
                except OSError:
                    pass
    tmpdir = os.path.join(REPLAY_DIR, f'.tmp-{pid}-{os.getpid()}')
    os.makedirs(tmpdir, exist_ok=True)
    env = dict(os.environ)
    env['PYTHONHASHSEED'] = '0'
    env['PYTHONDONTWRITEBYTECODE'] = '1'
    env['PYTHONPATH'] = VERIF + os.pathsep + env.get('PYTHONPATH', '')
    procs = []
    for s in shards:
        out = os.path.join(tmpdir, f'shard{s}.json')
        code = (
            'import sys; sys.path.insert(0, %r); from vf.harness import _shard_main; '
            '_shard_main(%r, %r, %d, %d, %d, %r, %r)'
            % (VERIF, modname, tier, seed, s, n_shards, out, replay_path)
        )
        log = open(os.path.join(tmpdir, f'shard{s}.log'), 'w')
        p = subprocess.Popen([PY, '-c', code], env=env, stdout=log, stderr=subprocess.STDOUT, cwd=VERIF)
        procs.append((s, p, out, log))
    reports = []
    inconclusive = []
    deadline = time.time() + timeout
    for s, p, out, log in procs:
        try:
            p.wait(timeout=max(1, deadline - time.time()))
        except subprocess.TimeoutExpired:
            p.kill()
            p.wait()
            inconclusive.append(f'shard {s}: wall-clock watchdog ({timeout}s) fired')
        log.close()
        if os.path.exists(out):
            with open(out) as f:
                reports.append(json.load(f))
        else:
            tail = ''
            try:
                with open(os.path.join(tmpdir, f'shard{s}.log')) as f:
                    tail = f.read()[-800:]
            except OSError:
                pass
            inconclusive.append(f'shard {s}: no report (exit {p.returncode}) {tail}')

    # ---- merge -------------------------------------------------------------------------
    evaluations = sum(r['evaluations'] for r in reports)
    distinct = set()
    for r in reports:
        distinct.update(r['distinct'])
    counters = Counter()
    for r in reports:
        counters.update(r['counters'])
    samples = []
    for r in reports:
        for smp in r['samples']:
            if len(samples) < 8:
                samples.append(smp)
    notes = {}
    for r in reports:
        for k, v in r['notes'].items():
            notes.setdefault(k, set()).update(v)
    stub_calls = Counter()
    for r in reports:
        stub_calls.update(r.get('stub_calls', {}))
        inconclusive.extend(f"shard {r['shard']}: {x}" for x in r['inconclusive'])
    exhaustive = all(r.get('exhaustive') for r in reports) if reports and all(r.get('exhaustive') is not None for r in reports) else None

    floors = getattr(mod, 'FLOORS', {})
    if callable(floors):
        floors = floors(tier)
    if replay is None:
        for name, minimum in floors.items():
            have = len(notes.get(name, ())) if name in notes else counters.get(name, 0)
            if name == 'evaluations':
                have = evaluations
            if name == 'distinct':
                have = len(distinct)
            if have < minimum:
                inconclusive.append(f'observation floor not reached: {name}={have} < {minimum}')
        forbidden = getattr(mod, 'FORBIDDEN_STUBS', ())
        for name in stub_calls:
            if any(name.startswith(f) for f in forbidden):
                inconclusive.append(f'inert stub on deciding path: {name}')

    # ---- verdicts ----------------------------------------------------------------------
    known = load_known()
    lines = []
    n_viol = 0
    n_known = 0
    known_printed = set()
    viol_printed = Counter()
    for r in reports:
        for v in r['violations']:
            k = (pid, v['key'])
            if k not in known and '/' in v['key']:
                # a known finding may be keyed by the originating history pattern alone: '*/via-<pattern>'
                k2 = (pid, '*/' + v['key'].split('/', 1)[1])
                if k2 in known:
                    k = k2
            if k in known:
                n_known += 1
                if k not in known_printed:
                    known_printed.add(k)
                    lines.append(f"KNOWN-FINDING: property={pid} {known[k].get('what', v['key'])} [key={v['key']}]")
                continue
            n_viol += 1
            viol_printed[v['key']] += 1
            if viol_printed[v['key']] > 3:
                continue
            rp = os.path.join(REPLAY_DIR, f"{pid}-{v['key'].replace('/', '_')}-s{seed}-{r['shard']}-{v['case_index']}-{viol_printed[v['key']]}.json")
            with open(rp, 'w') as f:
                json.dump(
                    {
                        'property': pid, 'tier': tier, 'seed': seed, 'shard': r['shard'], 'phase': v['phase'],
                        'case_index': v['case_index'], 'key': v['key'], 'what': v['what'], 'witness': v['witness'],
                    },
                    f, indent=1,
                )
            lines.append(f'VIOLATION property={pid} replay={rp}')
            lines.append(f"  mechanism={v['key']}: {v['what']}"[:600])
    total_viol_events = sum(c for n, c in counters.items() if n.startswith('violation['))

    wall = time.time() - t0
    level = getattr(mod, 'LEVEL', 'exploration')
    coverage = {
        'evaluations': evaluations,
        'distinct_nontrivial': len(distinct),
        'rule': getattr(mod, 'RULE', ''),
        'samples': samples,
        'observed': {k: v for k, v in sorted(counters.items())},
        'observed_sets': {k: sorted(v)[:60] for k, v in sorted(notes.items())},
        'observed_set_sizes': {k: len(v) for k, v in sorted(notes.items())},
        'shards': len(reports),
        'inconclusive_reasons': inconclusive[:10],
        'known_findings_hit': sorted(k[1] for k in known_printed),
        'stub_calls': dict(stub_calls.most_common(12)),
    }
    if exhaustive is not None:
        coverage['exhaustive'] = bool(exhaustive)
    if hasattr(mod, 'TRUSTED_BASE'):
        coverage['trusted_base'] = list(mod.TRUSTED_BASE)
    evidence = {
        'property_id': pid,
        'tier': tier,
        'seed': seed,
        'level': level,
        'coverage': coverage,
        'assumptions': list(getattr(mod, 'ASSUMPTIONS', [])),
        'wall_s': round(wall, 2),
        'violations': n_viol,
        'verdict': 'violated' if n_viol else ('inconclusive' if inconclusive else 'held'),
        'violation_events_total': total_viol_events,
    }
    if replay is None:
        os.makedirs(EVIDENCE_DIR, exist_ok=True)
        with open(os.path.join(EVIDENCE_DIR, f'{pid}.json'), 'w') as f:
            json.dump(evidence, f, indent=1, sort_keys=True)
            f.write('\n')
    for fn in os.listdir(tmpdir):
        try:
            os.unlink(os.path.join(tmpdir, fn))
        except OSError:
            pass
    try:
        os.rmdir(tmpdir)
    except OSError:
        pass

    for ln in lines:
        print(ln)
    print(
        f'{pid} tier={tier} seed={seed} shards={len(reports)} evaluations={evaluations} distinct={len(distinct)} '
        f'violations={n_viol} known={n_known} wall={wall:.1f}s'
    )
    interesting = {k: v for k, v in counters.items() if not k.startswith('violation[')}
    if interesting:
        print('  observed: ' + ', '.join(f'{k}={v}' for k, v in sorted(interesting.items())[:40]))
    if n_viol:
        return 1
    if inconclusive:
        for r in inconclusive[:10]:
            print(f'INCONCLUSIVE property={pid} reason={r}'[:1500])
        return 2
    print(f'HELD property={pid} on everything explored')
    return 0
