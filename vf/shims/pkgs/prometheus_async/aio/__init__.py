"""prometheus_async.aio shim.

``time(metric, future)`` is transcribed from prometheus_async 22.x (aio/_decorators.py): with a
future argument it returns a coroutine that awaits the future and observes the elapsed time in a
``finally``.  Cancellation of the awaiting task therefore propagates into the awaited future
exactly as ``await future`` does.  (C26 depends on this; trusted base.)
"""
from time import perf_counter
import functools
import inspect


def time(metric, future=None):
    def observe(start):
        try:
            metric.observe(perf_counter() - start)
        except Exception:
            pass

    def decorator(wrapped):
        @functools.wraps(wrapped)
        async def inner(*args, **kwargs):
            start = perf_counter()
            try:
                return await wrapped(*args, **kwargs)
            finally:
                observe(start)

        return inner

    if future is None:
        return decorator

    async def measure():
        start = perf_counter()
        try:
            return await future
        finally:
            observe(start)

    return measure()
