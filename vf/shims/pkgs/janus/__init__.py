import asyncio
import queue as _q


class Queue:
    def __init__(self, maxsize=0):
        self.sync_q = _q.Queue(maxsize)
        self.async_q = asyncio.Queue(maxsize)

    def close(self):
        pass

    async def wait_closed(self):
        pass
