class EncryptedCookieStorage:
    def __init__(self, *a, **k):
        pass
