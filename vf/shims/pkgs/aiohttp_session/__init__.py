"""aiohttp_session shim: per-request dict session stored on the request object."""
SESSION_KEY = 'aiohttp_session'


class Session(dict):
    def __init__(self, identity=None, *, data=None, new=True, max_age=None):
        super().__init__(data or {})
        self.identity = identity
        self.new = new
        self.changed_ = False

    def changed(self):
        self.changed_ = True

    def invalidate(self):
        self.clear()
        self.changed_ = True


async def get_session(request):
    s = request.get(SESSION_KEY) if hasattr(request, 'get') else None
    if s is None:
        s = Session(new=True)
        try:
            request[SESSION_KEY] = s
        except Exception:
            pass
    return s


async def new_session(request):
    s = Session(new=True)
    try:
        request[SESSION_KEY] = s
    except Exception:
        pass
    return s


def setup(app, storage):
    pass


def session_middleware(storage):
    from aiohttp import web

    @web.middleware
    async def mw(request, handler):
        return await handler(request)

    return mw
