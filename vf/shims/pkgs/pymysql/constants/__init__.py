from . import ER  # noqa: F401
