"""pymysql shim: exception hierarchy and error-code constants only (PEP 249 layout as in PyMySQL 1.x)."""
from . import err  # noqa: F401
from .err import (  # noqa: F401
    DatabaseError, DataError, Error, IntegrityError, InterfaceError, InternalError, MySQLError,
    NotSupportedError, OperationalError, ProgrammingError, Warning,
)
from . import constants  # noqa: F401
