class MySQLError(Exception):
    pass


class Warning(Warning, MySQLError):  # noqa: A001
    pass


class Error(MySQLError):
    pass


class InterfaceError(Error):
    pass


class DatabaseError(Error):
    pass


class DataError(DatabaseError):
    pass


class OperationalError(DatabaseError):
    pass


class IntegrityError(DatabaseError):
    pass


class InternalError(DatabaseError):
    pass


class ProgrammingError(DatabaseError):
    pass


class NotSupportedError(DatabaseError):
    pass
