class Timer:
    def __init__(self, metric, callback_name):
        self._metric = metric

    def __enter__(self):
        return self

    def __exit__(self, typ, value, traceback):
        return None

    def labels(self, *args, **kw):
        return self

    def __call__(self, f):
        return f
