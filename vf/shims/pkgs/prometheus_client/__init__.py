"""prometheus_client shim: metric objects whose operations are no-ops."""


class _Metric:
    def __init__(self, *args, **kwargs):
        pass

    def labels(self, *args, **kwargs):
        return self

    def inc(self, amount=1):
        pass

    def dec(self, amount=1):
        pass

    def set(self, value):
        pass

    def observe(self, amount):
        pass

    def remove(self, *labelvalues):
        pass

    def clear(self):
        pass

    def time(self):
        from .context_managers import Timer

        return Timer(self, 'observe')

    def track_inprogress(self):
        from .context_managers import Timer

        return Timer(self, 'observe')


class Counter(_Metric):
    pass


class Gauge(_Metric):
    pass


class Summary(_Metric):
    pass


class Histogram(_Metric):
    pass


class Info(_Metric):
    def info(self, val):
        pass


class Enum(_Metric):
    def state(self, s):
        pass


class CollectorRegistry:
    def __init__(self, *a, **k):
        pass


REGISTRY = CollectorRegistry()


def generate_latest(registry=None):
    return b''


def start_http_server(*a, **k):
    pass
