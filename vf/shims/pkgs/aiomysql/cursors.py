import re

# pymysql.cursors.RE_INSERT_VALUES: executemany() of such a statement is sent as ONE bulk INSERT
RE_INSERT_VALUES = re.compile(
    r"\s*((?:INSERT|REPLACE)\b.+\bVALUES?\s*)" + r"(\(\s*(?:%s|%\(.+\)s)\s*(?:,\s*(?:%s|%\(.+\)s)\s*)*\))" + r"(\s*(?:ON DUPLICATE.*)?);?\s*\Z",
    re.IGNORECASE | re.DOTALL,
)


class Cursor:
    _dict = False

    def __init__(self, conn):
        self._conn = conn
        self._rows = []
        self._pos = 0
        self.rowcount = -1
        self.lastrowid = None
        self.description = None

    def _wrap(self, names, rows):
        if self._dict:
            return [dict(zip(names, r)) for r in rows]
        return [tuple(r) for r in rows]

    async def execute(self, query, args=None):
        conn = self._conn
        site = 'execute'
        await conn._hook(site, query)
        rc, names, rows, lastrowid = await conn._run(query, args)
        conn._wake()
        self.rowcount = rc
        self.lastrowid = lastrowid
        self._pos = 0
        if names is not None:
            self.description = tuple((n, None, None, None, None, None, None) for n in names)
            self._rows = self._wrap(names, rows)
        else:
            self.description = None
            self._rows = []
        await conn._after(site, query)
        return rc

    async def executemany(self, query, args):
        if not args:
            return 0
        total = 0
        if RE_INSERT_VALUES.match(query):
            # bulk INSERT ... VALUES (..),(..): one statement, atomic (MySQL statement atomicity)
            conn = self._conn
            await conn._hook('execute', query)
            c = conn._c
            if not conn._autocommit and not c.in_txn:
                c.begin()
            mark = len(c.undo)
            was_in_txn = c.in_txn
            first_id = None
            try:
                for a in args:
                    rc, _, _, lastrowid = await conn._run(query, a)
                    total += rc
                    if first_id is None and lastrowid:
                        first_id = lastrowid
            except BaseException:
                if was_in_txn and c.in_txn:
                    c._undo_to(min(mark, len(c.undo)))
                raise
            conn._wake()
            self.rowcount = total
            self.lastrowid = first_id
            await conn._after('execute', query)
            return total
        for a in args:
            total += await self.execute(query, a)
        self.rowcount = total
        return total

    async def fetchone(self):
        if self._pos < len(self._rows):
            r = self._rows[self._pos]
            self._pos += 1
            return r
        return None

    async def fetchmany(self, size=None):
        size = size or 1
        out = self._rows[self._pos:self._pos + size]
        self._pos += len(out)
        return out

    async def fetchall(self):
        out = self._rows[self._pos:]
        self._pos = len(self._rows)
        return out

    async def close(self):
        self._rows = []

    async def __aenter__(self):
        return self

    async def __aexit__(self, *a):
        await self.close()
        return False


class DictCursor(Cursor):
    _dict = True


class SSCursor(Cursor):
    pass


class SSDictCursor(DictCursor):
    pass
