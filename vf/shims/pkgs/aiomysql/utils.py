class _ContextManager:
    def __init__(self, coro):
        self._coro = coro
        self._obj = None

    def __await__(self):
        return self._coro.__await__()

    async def __aenter__(self):
        self._obj = await self._coro
        return self._obj

    async def __aexit__(self, exc_type, exc, tb):
        self._obj.close()
        await self._obj.wait_closed()
        self._obj = None


class _PoolContextManager(_ContextManager):
    pass


class _PoolAcquireContextManager:
    def __init__(self, coro, pool):
        self._coro = coro
        self._conn = None
        self._pool = pool

    def __await__(self):
        return self._coro.__await__()

    async def __aenter__(self):
        self._conn = await self._coro
        return self._conn

    async def __aexit__(self, exc_type, exc, tb):
        try:
            await self._pool.release(self._conn)
        finally:
            self._pool = None
            self._conn = None
