"""aiomysql shim over minimysql (functional).

The harness sets ``aiomysql.ENGINE`` to a ``vf.minimysql.engine.Database`` before the repo code calls
``create_pool``.  Hooks (all optional, set by the harness):
  ``HOOKS['delay']``      async (site) -> None        seeded virtual delay at every boundary call
  ``HOOKS['fault']``      (site, conn, sql) -> exception to raise *before* the effect, or None
  ``HOOKS['fault_after']`` (site, conn, sql) -> exception to raise *after* the effect (lost response), or None
Pool accounting (``Pool.checked_out``) is observable for the C27 oracle.
"""
import asyncio

from . import cursors, utils  # noqa: F401
from .cursors import Cursor, DictCursor  # noqa: F401
from .utils import _PoolContextManager, _PoolAcquireContextManager  # noqa: F401

ENGINE = None
HOOKS = {}
POOLS = []


class Connection:
    def __init__(self, pool, engine, autocommit):
        self._pool = pool
        self._engine = engine
        self._c = engine.connect()
        self._autocommit = autocommit
        self._closed = False

    @property
    def closed(self):
        return self._closed

    def cursor(self, *a, **k):
        return _CursorCM(self._pool.cursorclass(self))

    async def _hook(self, site, sql=None):
        d = HOOKS.get('delay')
        if d is not None:
            await d(site)
        f = HOOKS.get('fault')
        if f is not None:
            exc = f(site, self, sql)
            if exc is not None:
                raise exc

    async def _after(self, site, sql=None):
        f = HOOKS.get('fault_after')
        if f is not None:
            exc = f(site, self, sql)
            if exc is not None:
                raise exc

    async def _run(self, sql, args):
        from vf.minimysql.engine import LockWouldBlock

        c = self._c
        if not self._autocommit and not c.in_txn:
            c.begin()
        while True:
            try:
                return c.execute(sql, args)
            except LockWouldBlock:
                ev = asyncio.Event()
                self._engine.lock_waiters.append(ev)
                await ev.wait()

    def _wake(self):
        eng = self._engine
        if eng.lock_owner is None and eng.lock_waiters:
            ws, eng.lock_waiters = eng.lock_waiters, []
            for ev in ws:
                ev.set()

    async def commit(self):
        await self._hook('commit', 'COMMIT')
        self._c.commit()
        self._wake()
        await self._after('commit', 'COMMIT')

    async def rollback(self):
        await self._hook('rollback', 'ROLLBACK')
        self._c.rollback()
        self._wake()

    async def begin(self):
        self._c.begin()
        self._wake()

    def close(self):
        if not self._closed:
            self._c.rollback()
            self._wake()
            self._closed = True

    async def ensure_closed(self):
        self.close()

    async def autocommit(self, value):
        self._autocommit = bool(value)


class _CursorCM:
    def __init__(self, cur):
        self._cur = cur

    async def __aenter__(self):
        return self._cur

    async def __aexit__(self, *a):
        await self._cur.close()
        return False

    def __await__(self):
        async def _r():
            return self._cur
        return _r().__await__()


class Pool:
    def __init__(self, engine, maxsize, autocommit, cursorclass):
        self._engine = engine
        self.maxsize = maxsize
        self._autocommit = autocommit
        self.cursorclass = cursorclass or Cursor
        self.checked_out = 0
        self.max_checked_out = 0
        self._waiters = []
        self._closed = False
        POOLS.append(self)

    def acquire(self):
        return _PoolAcquireContextManager(self._acquire(), self)

    async def _acquire(self):
        d = HOOKS.get('delay')
        if d is not None:
            await d('connect')
        f = HOOKS.get('fault')
        if f is not None:
            exc = f('connect', None, None)
            if exc is not None:
                raise exc
        while self.checked_out >= self.maxsize:
            ev = asyncio.Event()
            self._waiters.append(ev)
            await ev.wait()
        self.checked_out += 1
        self.max_checked_out = max(self.max_checked_out, self.checked_out)
        return Connection(self, self._engine, self._autocommit)

    def release(self, conn):
        conn.close()
        self.checked_out -= 1
        if self._waiters:
            self._waiters.pop(0).set()
        fut = asyncio.get_event_loop().create_future()
        fut.set_result(None)
        return fut

    def close(self):
        self._closed = True

    def terminate(self):
        self._closed = True

    async def wait_closed(self):
        return None

    async def __aenter__(self):
        return self

    async def __aexit__(self, *a):
        self.close()
        return False


def create_pool(minsize=1, maxsize=10, echo=False, pool_recycle=-1, loop=None, **kwargs):
    async def _create():
        if ENGINE is None:
            raise RuntimeError('aiomysql shim: ENGINE not set')
        return Pool(ENGINE, maxsize, kwargs.get('autocommit', False), kwargs.get('cursorclass'))
    return _PoolContextManager(_create())


async def connect(**kwargs):
    p = Pool(ENGINE, 1, kwargs.get('autocommit', False), kwargs.get('cursorclass'))
    return await p._acquire()
