"""Functional stand-in for `dill` (not installed in the sandbox): pickle with dill's call signatures.

Enough for hailtop.batch (PythonJob argument / function files): importable functions are pickled by
reference, plain data by value.  Anything else resolves to a permissive inert stub, as before.
"""
import io
import pickle

__version__ = '0.3.8-verif-shim'
_verif_functional_shim = True

HIGHEST_PROTOCOL = pickle.HIGHEST_PROTOCOL
DEFAULT_PROTOCOL = pickle.DEFAULT_PROTOCOL
PicklingError = pickle.PicklingError
UnpicklingError = pickle.UnpicklingError


def dump(obj, file, protocol=None, byref=None, fmode=None, recurse=None, **kwds):
    pickle.dump(obj, file, protocol=protocol)


def dumps(obj, protocol=None, byref=None, fmode=None, recurse=None, **kwds):
    f = io.BytesIO()
    dump(obj, f, protocol=protocol)
    return f.getvalue()


def load(file, ignore=None, **kwds):
    return pickle.load(file)


def loads(data, ignore=None, **kwds):
    return pickle.loads(data)


def __getattr__(name):
    if name.startswith('__') and name.endswith('__'):
        raise AttributeError(name)
    from vf.shims import _make_stub

    return _make_stub(f'dill.{name}')
