def naturalsize(value, binary=False, gnu=False, format='%.1f'):
    base = 1024 if binary else 1000
    suffixes = ['KiB', 'MiB', 'GiB', 'TiB', 'PiB'] if binary else ['kB', 'MB', 'GB', 'TB', 'PB']
    v = float(value)
    if abs(v) < base:
        return f'{int(v)} Bytes'
    for i, s in enumerate(suffixes):
        unit = base ** (i + 2)
        if abs(v) < unit:
            return (format % (base * v / unit)) + ' ' + s
    return (format % (base * v / unit)) + ' ' + s


def naturaldelta(value, **k):
    return str(value)


def naturaltime(value, **k):
    return str(value)
