"""orjson shim over json (functional): dumps -> bytes, loads accepts bytes/str."""
import json

OPT_INDENT_2 = 1
OPT_SORT_KEYS = 2
JSONDecodeError = json.JSONDecodeError
JSONEncodeError = TypeError


def dumps(obj, default=None, option=None):
    kw = {}
    if option:
        if option & OPT_INDENT_2:
            kw['indent'] = 2
        if option & OPT_SORT_KEYS:
            kw['sort_keys'] = True
    if 'indent' not in kw:
        kw['separators'] = (',', ':')
    return json.dumps(obj, default=default, ensure_ascii=False, allow_nan=True, **kw).encode('utf-8')


def loads(data):
    if isinstance(data, (bytes, bytearray, memoryview)):
        data = bytes(data).decode('utf-8')
    return json.loads(data)
