from .exceptions import UndefinedLabel, VisitationError


class Node:
    __slots__ = ('expr', 'full_text', 'start', 'end', 'children')

    def __init__(self, expr, full_text, start, end, children=None):
        self.expr = expr
        self.full_text = full_text
        self.start = start
        self.end = end
        self.children = children or []

    @property
    def expr_name(self):
        return self.expr.name

    def __iter__(self):
        return iter(self.children)

    @property
    def text(self):
        return self.full_text[self.start:self.end]

    def __repr__(self):
        return '<%s %s %r>' % (type(self).__name__, self.expr_name or '(anon)', self.text)


class RegexNode(Node):
    __slots__ = ('match',)


class NodeVisitor:
    grammar = None
    unwrapped_exceptions = ()

    def visit(self, node):
        method = getattr(self, 'visit_' + node.expr_name, self.generic_visit)
        try:
            return method(node, [self.visit(n) for n in node])
        except (VisitationError, UndefinedLabel):
            raise
        except Exception as exc:
            if isinstance(exc, self.unwrapped_exceptions):
                raise
            raise VisitationError(exc, type(exc), node) from exc

    def generic_visit(self, node, visited_children):
        raise NotImplementedError('No visitor method was defined for this expression: %s' % node.expr.name)

    def parse(self, text, pos=0):
        return self._parse_or_match(text, pos, 'parse')

    def match(self, text, pos=0):
        return self._parse_or_match(text, pos, 'match')

    def _parse_or_match(self, text, pos, method_name):
        if not self.grammar:
            raise RuntimeError('no grammar')
        return self.visit(getattr(self.grammar, method_name)(text, pos=pos))

    def lift_child(self, node, children):
        (first,) = children
        return first
