import ast
import re
from collections import OrderedDict

from .exceptions import BadGrammar, IncompleteParseError, ParseError, UndefinedLabel
from .nodes import Node, RegexNode


class Expression:
    def __init__(self, name=''):
        self.name = name

    def match_core(self, text, pos, cache, error):
        key = (id(self), pos)
        if key in cache:
            return cache[key]
        node = self._uncached_match(text, pos, cache, error)
        cache[key] = node
        if node is None and pos >= error.pos and (self.name or getattr(error.expr, 'name', None) is None):
            error.expr = self
            error.pos = pos
        return node

    def parse(self, text, pos=0):
        node = self.match(text, pos=pos)
        if node.end < len(text):
            raise IncompleteParseError(text, node.end, self)
        return node

    def match(self, text, pos=0):
        error = ParseError(text)
        node = self.match_core(text, pos, {}, error)
        if node is None:
            raise error
        return node


class Literal(Expression):
    def __init__(self, literal, name=''):
        super().__init__(name)
        self.literal = literal

    def _uncached_match(self, text, pos, cache, error):
        if text.startswith(self.literal, pos):
            return Node(self, text, pos, pos + len(self.literal))
        return None


class Regex(Expression):
    def __init__(self, pattern, name='', flags=0):
        super().__init__(name)
        self.re = re.compile(pattern, flags)

    def _uncached_match(self, text, pos, cache, error):
        m = self.re.match(text, pos)
        if m is not None:
            node = RegexNode(self, text, pos, pos + (m.end() - m.start()))
            node.match = m
            return node
        return None


class Compound(Expression):
    def __init__(self, members, name=''):
        super().__init__(name)
        self.members = list(members)


class Sequence(Compound):
    def _uncached_match(self, text, pos, cache, error):
        new_pos = pos
        children = []
        for m in self.members:
            node = m.match_core(text, new_pos, cache, error)
            if node is None:
                return None
            children.append(node)
            new_pos = node.end
        return Node(self, text, pos, new_pos, children)


class OneOf(Compound):
    def _uncached_match(self, text, pos, cache, error):
        for m in self.members:
            node = m.match_core(text, pos, cache, error)
            if node is not None:
                return Node(self, text, pos, node.end, children=[node])
        return None


class Lookahead(Compound):
    def __init__(self, member, negative=False, name=''):
        super().__init__([member], name)
        self.negativity = bool(negative)

    def _uncached_match(self, text, pos, cache, error):
        node = self.members[0].match_core(text, pos, cache, error)
        if (node is None) == self.negativity:
            return Node(self, text, pos, pos)
        return None


class Quantifier(Compound):
    def __init__(self, member, min=0, max=float('inf'), name=''):
        super().__init__([member], name)
        self.min = min
        self.max = max

    def _uncached_match(self, text, pos, cache, error):
        new_pos = pos
        children = []
        while new_pos < len(text) and len(children) < self.max:
            node = self.members[0].match_core(text, new_pos, cache, error)
            if node is None:
                break
            children.append(node)
            length = node.end - node.start
            if len(children) >= self.min and length == 0:
                break
            new_pos += length
        if len(children) >= self.min:
            return Node(self, text, pos, new_pos, children)
        return None


class _Ref:
    def __init__(self, label):
        self.label = label


_TOKEN = re.compile(
    r"""
    (?P<ws>\s+|\#[^\n]*)
  | (?P<regex>~\s*[rRuUbB]*(?:"(?:[^"\\]|\\.)*"|'(?:[^'\\]|\\.)*')[ilmsuxa]*)
  | (?P<literal>[rRuUbB]*(?:"(?:[^"\\]|\\.)*"|'(?:[^'\\]|\\.)*'))
  | (?P<label>[a-zA-Z_][a-zA-Z_0-9]*)
  | (?P<quant>[?*+]|\{\d*,?\d*\})
  | (?P<sym>[=/()&!])
    """,
    re.VERBOSE | re.DOTALL,
)

_FLAGS = {'i': re.I, 'l': re.L, 'm': re.M, 's': re.S, 'u': re.U, 'x': re.X, 'a': re.A}


def _eval_string(tok):
    return ast.literal_eval(tok)


class _RuleParser:
    def __init__(self, text):
        self.toks = []
        pos = 0
        while pos < len(text):
            m = _TOKEN.match(text, pos)
            if m is None:
                raise BadGrammar('cannot tokenise grammar at %r' % text[pos:pos + 30])
            pos = m.end()
            kind = m.lastgroup
            if kind != 'ws':
                self.toks.append((kind, m.group(kind)))
        self.i = 0

    def peek(self, k=0):
        j = self.i + k
        return self.toks[j] if j < len(self.toks) else (None, None)

    def next(self):
        t = self.peek()
        self.i += 1
        return t

    def rules(self):
        out = []
        while self.peek()[0] is not None:
            kind, label = self.next()
            if kind != 'label' or self.next() != ('sym', '='):
                raise BadGrammar('expected "label =" in grammar')
            expr = self.expression()
            out.append((label, expr))
        return out

    def at_rule_start(self):
        return self.peek()[0] == 'label' and self.peek(1) == ('sym', '=')

    def expression(self):
        seqs = [self.sequence()]
        while self.peek() == ('sym', '/'):
            self.next()
            seqs.append(self.sequence())
        return seqs[0] if len(seqs) == 1 else OneOf(seqs)

    def sequence(self):
        items = []
        while True:
            kind, val = self.peek()
            if kind is None or (kind == 'sym' and val in '/)=') or self.at_rule_start():
                break
            items.append(self.prefixed())
        if not items:
            raise BadGrammar('empty sequence in grammar')
        return items[0] if len(items) == 1 else Sequence(items)

    def prefixed(self):
        kind, val = self.peek()
        if kind == 'sym' and val in '&!':
            self.next()
            return Lookahead(self.quantified(), negative=(val == '!'))
        return self.quantified()

    def quantified(self):
        atom = self.atom()
        kind, val = self.peek()
        if kind == 'quant':
            self.next()
            if val == '?':
                return Quantifier(atom, 0, 1)
            if val == '*':
                return Quantifier(atom, 0)
            if val == '+':
                return Quantifier(atom, 1)
            lo, _, hi = val[1:-1].partition(',')
            if ',' not in val:
                return Quantifier(atom, int(lo), int(lo))
            return Quantifier(atom, int(lo or 0), int(hi) if hi else float('inf'))
        return atom

    def atom(self):
        kind, val = self.next()
        if kind == 'literal':
            return Literal(_eval_string(val))
        if kind == 'regex':
            body = val[1:].lstrip()
            m = re.match(r'''([rRuUbB]*(?:"(?:[^"\\]|\\.)*"|'(?:[^'\\]|\\.)*'))([ilmsuxa]*)$''', body, re.DOTALL)
            flags = 0
            for ch in m.group(2):
                flags |= _FLAGS[ch]
            return Regex(_eval_string(m.group(1)), flags=flags)
        if kind == 'label':
            return _Ref(val)
        if kind == 'sym' and val == '(':
            e = self.expression()
            if self.next() != ('sym', ')'):
                raise BadGrammar('expected ")"')
            # a parenthesised group is its own anonymous node (as in parsimonious)
            return e
        raise BadGrammar('unexpected token %r in grammar' % (val,))


class Grammar(OrderedDict):
    def __init__(self, rules='', **more_rules):
        super().__init__()
        parsed = _RuleParser(rules).rules()
        named = OrderedDict()
        for label, expr in parsed:
            if isinstance(expr, _Ref):
                named[label] = expr  # alias, resolved below
            else:
                if expr.name:
                    # the same anonymous object cannot carry two names; wrap
                    expr = Sequence([expr])
                expr.name = label
                named[label] = expr

        def resolve_alias(label, seen=()):
            e = named.get(label)
            if e is None:
                raise UndefinedLabel(label)
            if isinstance(e, _Ref):
                if label in seen:
                    raise BadGrammar('circular alias %s' % label)
                return resolve_alias(e.label, seen + (label,))
            return e

        done = set()

        def resolve(expr):
            if id(expr) in done:
                return
            done.add(id(expr))
            if isinstance(expr, Compound):
                for i, m in enumerate(expr.members):
                    if isinstance(m, _Ref):
                        expr.members[i] = resolve_alias(m.label)
                    else:
                        resolve(m)

        for label in list(named):
            named[label] = resolve_alias(label)
        for expr in list(named.values()):
            resolve(expr)
        self.update(named)
        self.default_rule = next(iter(named.values())) if named else None

    def default(self, rule_name):
        import copy

        new = copy.copy(self)
        new.default_rule = self[rule_name]
        return new

    def parse(self, text, pos=0):
        if self.default_rule is None:
            raise RuntimeError('empty grammar')
        return self.default_rule.parse(text, pos=pos)

    def match(self, text, pos=0):
        return self.default_rule.match(text, pos=pos)
