class ParsimoniousError(Exception):
    pass


class ParseError(ParsimoniousError):
    def __init__(self, text, pos=-1, expr=None):
        self.text = text
        self.pos = pos
        self.expr = expr

    def __str__(self):
        rule = getattr(self.expr, 'name', None) or str(self.expr)
        return "Rule %s didn't match at '%s' (line %s, column %s)." % (rule, self.text[self.pos:self.pos + 20], self.line(), self.column())

    def line(self):
        return self.text.count('\n', 0, self.pos) + 1

    def column(self):
        try:
            return self.pos - self.text.rindex('\n', 0, self.pos)
        except ValueError:
            return self.pos + 1


class IncompleteParseError(ParseError):
    def __str__(self):
        rule = getattr(self.expr, 'name', None) or str(self.expr)
        return "Rule '%s' matched in its entirety, but it didn't consume all the text. The non-matching portion of the text begins with '%s' (line %s, column %s)." % (
            rule, self.text[self.pos:self.pos + 20], self.line(), self.column())


class LeftRecursionError(ParseError):
    pass


class VisitationError(ParsimoniousError):
    def __init__(self, exc, exc_class, node):
        self.original_class = exc_class
        super().__init__('%s: %s\n\nParse tree:\n%s' % (exc_class.__name__, exc, getattr(node, 'expr_name', '')))


class BadGrammar(ParsimoniousError):
    pass


class UndefinedLabel(BadGrammar):
    def __init__(self, label):
        self.label = label

    def __str__(self):
        return 'The label "%s" was never defined.' % self.label
