"""parsimonious shim (functional): PEG grammars in parsimonious' rule syntax, parse trees with the
node shapes of parsimonious 0.10 (Sequence: one child per member; OneOf: exactly one child, the
matching alternative; Optional: zero or one child; ZeroOrMore/OneOrMore: one child per repetition;
Literal/Regex: leaves), and NodeVisitor dispatch on ``visit_<rule name>`` with ``generic_visit``
fallback.  Covers the subset hail/expr/type_parsing.py uses: ordered choice, sequence, ? * +,
literals, ``~"regex"flags``, references, grouping, & and ! lookahead.  Trusted base of C31.
"""
import ast
import re

from .exceptions import (  # noqa: F401
    BadGrammar, IncompleteParseError, LeftRecursionError, ParseError, UndefinedLabel, VisitationError,
)
from .nodes import Node, NodeVisitor, RegexNode  # noqa: F401
from .grammar import Grammar  # noqa: F401
