"""decorator shim (functional subset): decorator(caller) -> signature-preserving decorator."""
import functools


def decorator(caller):
    def deco(func):
        @functools.wraps(func)
        def wrapper(*args, **kwargs):
            return caller(func, *args, **kwargs)

        return wrapper

    functools.update_wrapper(deco, caller)
    return deco
