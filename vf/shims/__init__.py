"""Shim layer: stand-ins for third-party modules that are not installed in the sandbox.

* functional shims live as real packages under ``vf/shims/pkgs`` (appended to sys.path, so an
  installed real package always wins);
* every other missing third-party top-level package listed in ``INERT`` resolves to a permissive
  stub module.  Calls into inert stubs are counted (``stub_calls``) so a check can declare itself
  INCONCLUSIVE when its deciding path went through one.
"""
import importlib.abc
import importlib.machinery
import os
import sys
import types
from collections import Counter

PKGS = os.path.join(os.path.dirname(os.path.abspath(__file__)), 'pkgs')

# top-level names that may be auto-stubbed when missing
INERT = {
    'kubernetes_asyncio', 'jinja2', 'aiohttp_jinja2', 'google', 'googleapiclient', 'azure', 'msal', 'msrest',
    'boto3', 'botocore', 'gidgethub', 'uvloop', 'aiodocker', 'psutil', 'plotly', 'pandas', 'bokeh',
    'pyspark', 'py4j', 'requests', 'tabulate', 'rich', 'typer', 'jproperties', 'avro', 'dill',
    'frozenlist_', 'aiorwlock', 'sass', 'libsass', 'zulip', 'httpx', 'cryptography', 'jwt', 'oauthlib',
    'google_auth_oauthlib', 'nest_asyncio', 'janus', 'regex', 'Deprecated', 'deprecated', 'scipy_', 'async_timeout',
    'aiofiles', 'secrets_', 'benchmark', 'matplotlib', 'IPython', 'tqdm', 'certifi', 'urllib3', 'dateutil', 'python_json_logger',
    'pythonjsonlogger', 'kubernetes', 'docker', 'setproctitle', 'orjson_', 'click_', 'protobuf', 'grpc', 'hailtop_', 'ruamel', 'toml', 'tomli', 'pytz',
    'aiohttp_swagger', 'aiohttp_cors', 'collectd', 'cachetools', 'pyasn1', 'rsa', 'packaging_',
}

# extra names, one per line, in vf/shims/inert.d/*.txt (so several people can extend the set without editing this file)
_d = os.path.join(os.path.dirname(os.path.abspath(__file__)), 'inert.d')
if os.path.isdir(_d):
    for _fn in sorted(os.listdir(_d)):
        if _fn.endswith('.txt'):
            with open(os.path.join(_d, _fn)) as _f:
                INERT.update(x.strip() for x in _f if x.strip() and not x.startswith('#'))

stub_calls: Counter = Counter()
stubbed_imports: Counter = Counter()


class _StubMeta(type):
    def __getattr__(cls, name):
        if name.startswith('__') and name.endswith('__'):
            raise AttributeError(name)
        return _make_stub(f'{cls.__qualname__}.{name}')

    def __call__(cls, *args, **kwargs):
        stub_calls[cls.__qualname__] += 1
        inst = type.__call__(cls)
        return inst

    def __getitem__(cls, item):
        return cls

    def __or__(cls, other):
        return cls

    def __ror__(cls, other):
        return cls

    def __iter__(cls):
        return iter(())


def _make_stub(qualname):
    is_exc = qualname.rsplit('.', 1)[-1].endswith(('Error', 'Exception', 'Timeout', 'Exists', 'NotFound', 'Failure'))
    base = (Exception,) if is_exc else (object,)
    ns = {'__module__': qualname.rsplit('.', 1)[0], '__qualname__': qualname, '_verif_stub': True}

    def __init__(self, *a, **k):
        if is_exc:
            Exception.__init__(self, *a)

    def __getattr__(self, name):
        if name.startswith('__') and name.endswith('__'):
            raise AttributeError(name)
        return _make_stub(f'{qualname}().{name}')

    def __call__(self, *a, **k):
        stub_calls[qualname + '()'] += 1
        # decorator usage: @stub(...) def f -> return f unchanged when given a single callable
        if len(a) == 1 and not k and callable(a[0]) and not getattr(a[0], '_verif_stub', False):
            return a[0]
        return _make_stub(f'{qualname}()()')()

    def __iter__(self):
        return iter(())

    def __enter__(self):
        return self

    def __exit__(self, *a):
        return False

    async def __aenter__(self):
        return self

    async def __aexit__(self, *a):
        return False

    ns.update(
        __init__=__init__, __getattr__=__getattr__, __call__=__call__, __iter__=__iter__,
        __enter__=__enter__, __exit__=__exit__, __aenter__=__aenter__, __aexit__=__aexit__,
    )
    return _StubMeta(qualname.rsplit('.', 1)[-1], base, ns)


class _StubModule(types.ModuleType):
    def __getattr__(self, name):
        if name.startswith('__') and name.endswith('__'):
            raise AttributeError(name)
        v = _make_stub(f'{self.__name__}.{name}')
        setattr(self, name, v)
        return v


class _StubLoader(importlib.abc.Loader):
    def create_module(self, spec):
        m = _StubModule(spec.name)
        m.__path__ = []  # behave as a package so submodules resolve
        m._verif_stub = True
        return m

    def exec_module(self, module):
        stubbed_imports[module.__name__] += 1


class _StubFinder(importlib.abc.MetaPathFinder):
    def find_spec(self, fullname, path, target=None):
        top = fullname.split('.', 1)[0]
        if top not in INERT:
            return None
        if '.' in fullname:
            parent = sys.modules.get(fullname.rsplit('.', 1)[0])
            if parent is not None and not getattr(parent, '_verif_stub', False):
                return None
        return importlib.machinery.ModuleSpec(fullname, _StubLoader(), is_package=True)


_installed = False


def install():
    global _installed
    if _installed:
        return
    _installed = True
    if PKGS not in sys.path:
        sys.path.append(PKGS)
    sys.meta_path.append(_StubFinder())  # last: anything really installed wins


def reset_counters():
    stub_calls.clear()
