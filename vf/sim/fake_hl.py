"""Provenance-tracking stand-in for the Hail engine as the VDS combiner sees it (used by C38).

Nothing of the combiner is re-implemented here.  What is faked is the *engine*: tables, matrix
tables and variant datasets are empty shells that carry the ordered tuple of *atoms* they were built
from, and a fake file system remembers what was written where.

    atom ('g', gvcf_path, sample_id_used_for_that_column)     one GVCF input = one sample column
    atom ('v', vds_path, n_samples)                            one VDS input  = a block of columns

Pure-Python parts of hail (types, Interval, Locus, Struct, ReferenceGenome, tmatrix JSON, the
typecheck decorators, ``hl.get_reference`` / ``hl.current_backend`` / ``info`` / ``warning`` through a
fake backend object installed in ``Env._hc``) are the real ones.

``World.install()`` is a context manager that swaps the names in
``hail.vds.combiner.variant_dataset_combiner`` and restores them afterwards.
"""
import contextlib
import io
import json
import os
import types
import uuid as _real_uuid


class CrashInjected(BaseException):
    """the process dies here (BaseException: no handler of the code under test may swallow it)"""


class FakeEngineGap(Exception):
    """the code under test used a part of ``hl`` that this fake does not model => INCONCLUSIVE"""


# --------------------------------------------------------------------------------------------
# tiny lazy expression language: enough for what _step_gvcfs builds
# --------------------------------------------------------------------------------------------
def _deep(x, i):
    if isinstance(x, E):
        return x._f(i)
    if isinstance(x, (list, tuple)):
        return type(x)(_deep(e, i) for e in x)
    if isinstance(x, dict):
        return {k: _deep(v, i) for k, v in x.items()}
    return x


def _field(v, name):
    if isinstance(v, dict):
        return v[name]
    try:
        return v[name]  # hl.Struct
    except (TypeError, KeyError, IndexError):
        return getattr(v, name)


class E:
    """expression = function of the (optional) row index"""

    def __init__(self, f):
        object.__setattr__(self, '_f', f)

    @staticmethod
    def lift(x):
        return x if isinstance(x, E) else E(lambda i: _deep(x, i))

    def ev(self, i=None):
        return self._f(i)

    def __getitem__(self, k):
        k = E.lift(k)
        return E(lambda i: self._f(i)[k._f(i)])

    def __getattr__(self, name):
        if name.startswith('__') and name.endswith('__'):
            raise AttributeError(name)
        return E(lambda i: _field(self._f(i), name))

    def map(self, g):
        return E(lambda i: [E.lift(g(E.lift(e))).ev(i) for e in self._f(i)])

    def annotate(self, **kw):
        return E(lambda i: {**dict(self._f(i)), **{k: E.lift(v).ev(i) for k, v in kw.items()}})


class _Agg:
    def __init__(self, kind, expr):
        self.kind = kind
        self.expr = expr


class FakeRangeTable:
    def __init__(self, n, fields=None):
        self.n = n
        self._fields = dict(fields or {})
        self._fields.setdefault('idx', E(lambda i: i))

    def __getattr__(self, name):
        if name.startswith('_'):
            raise AttributeError(name)
        try:
            return self._fields[name]
        except KeyError:
            raise AttributeError(name)

    def annotate(self, **kw):
        f = dict(self._fields)
        f.update({k: E.lift(v) for k, v in kw.items()})
        return FakeRangeTable(self.n, f)

    def aggregate(self, agg):
        if not isinstance(agg, _Agg) or agg.kind != 'collect':
            raise FakeEngineGap('range table aggregate other than collect')
        return [agg.expr.ev(i) for i in range(self.n)]


class ImportStream:
    def __init__(self, path, idx, half=None, kept=None):
        self.path = path
        self.idx = idx
        self.half = half
        self.kept = kept


class ZipJoined:
    def __init__(self, streams, key):
        self.streams = streams
        self.key = key


class FakeTable:
    """a localized table produced by Table._generate (or derived from it)"""

    def __init__(self, half, cols, combined=False):
        self.half = half
        self.cols = tuple(cols)
        self.combined = combined

    def _unlocalize_entries(self, entries, cols, key):
        if not self.combined:
            raise FakeEngineGap('_unlocalize_entries on a table that did not go through combine/combine_r')
        return FakeMT(self.half, self.cols, globals_=())


class FakeMT:
    def __init__(self, half, cols, globals_=(), entry=None, typ=None):
        self.half = half
        self.cols = tuple(cols)
        self.globals = frozenset(globals_)
        self.entry = tuple(entry) if entry is not None else (('LGT', 'LEN', 'DP', 'GQ') if half == 'ref' else ('LGT', 'LA', 'DP', 'GQ', 'gvcf_info'))
        self._type = typ
        self.info = types.SimpleNamespace(END=object())
        self._world = None

    def _copy(self, **kw):
        d = dict(half=self.half, cols=self.cols, globals_=self.globals, entry=self.entry, typ=self._type)
        d.update(kw)
        m = FakeMT(**d)
        m._world = self._world
        return m

    def count_cols(self):
        return sum(1 if a[0] == 'g' else a[2] for a in self.cols)

    def drop(self, *names):
        return self._copy(entry=[e for e in self.entry if e not in names], globals_=[g for g in self.globals if g not in names])

    def _key_rows_by_assert_sorted(self, *keys):
        return self._copy()

    def key_rows_by(self, *keys):
        return self._copy()

    def filter_rows(self, *a, **k):
        return self._copy()

    def write(self, path, overwrite=False, _codec_spec=None, **kw):
        if kw:
            raise FakeEngineGap(f'MatrixTable.write keyword(s) {sorted(kw)} not modelled')
        World.current.fs.write_mt(path, self, overwrite)


def _make_fake_vds_class(real_vds_cls):
    class FakeVDS(real_vds_cls):
        # the real write() / _reference_path / _variants_path / ref_block_max_length_field are inherited
        def __init__(self, reference_data, variant_data):
            self.reference_data = reference_data
            self.variant_data = variant_data

        def n_samples(self):
            return self.reference_data.count_cols()

        def validate(self, *a, **k):
            return None

    FakeVDS.__name__ = 'VariantDataset'
    return FakeVDS


# --------------------------------------------------------------------------------------------
# file system
# --------------------------------------------------------------------------------------------
class MTRecord:
    __slots__ = ('half', 'cols', 'globals', 'entry', 'typ', 'complete', 'op')

    def __init__(self, half, cols, globals_, entry, typ, complete, op):
        self.half, self.cols, self.globals, self.entry, self.typ, self.complete, self.op = half, cols, globals_, entry, typ, complete, op


class _Writer(io.StringIO):
    def __init__(self, fs, path):
        super().__init__()
        self._fs = fs
        self._path = path

    def __exit__(self, et, ev, tb):
        if et is None:
            self._fs._close_w(self._path, self.getvalue())
        return super().__exit__(et, ev, tb)


class FakeFS:
    """what was written where.  Every operation is numbered; `crash_at=n` kills the process at op n,
    `oserror_at=n` makes op n raise OSError (a failing storage call that the code may handle)."""

    def __init__(self):
        self.files = {}   # text files
        self.mts = {}     # matrix-table directories
        self.extra = {}   # vds_path -> True when store_ref_block_max_length ran
        self.n_ops = 0
        self.crash_at = None
        self.oserror_at = None
        self.log = []
        self.removed = []
        self.overwritten = []  # (path, old cols) complete datasets destroyed by overwrite=True

    def _op(self, name, path):
        self.n_ops += 1
        if len(self.log) < 4000:
            self.log.append((self.n_ops, name, path))
        if self.crash_at is not None and self.n_ops == self.crash_at:
            self.crash_at = None
            return 'crash'
        if self.oserror_at is not None and self.n_ops == self.oserror_at:
            self.oserror_at = None
            return 'oserror'
        return None

    def _fault(self, name, path):
        r = self._op(name, path)
        if r == 'crash':
            raise CrashInjected(f'{name} {path} (op {self.n_ops})')
        if r == 'oserror':
            raise OSError(5, f'injected I/O error in {name}', path)

    # -- text files ----------------------------------------------------------------------
    def exists(self, path):
        self._fault('exists', path)
        return self._exists(path)

    def _exists(self, path):
        path = path.rstrip('/')
        if path in self.files or path in self.mts:
            return True
        d, b = os.path.split(path)
        if b == '_SUCCESS' and d in self.mts:
            return self.mts[d].complete
        pre = path + '/'
        return any(k.startswith(pre) for k in self.mts) or any(k.startswith(pre) for k in self.files)

    def open(self, path, mode='r', **kw):
        if 'w' in mode:
            self._fault('open_w', path)
            return _Writer(self, path)
        self._fault('open_r', path)
        if path not in self.files:
            raise FileNotFoundError(2, 'No such file', path)
        return io.StringIO(self.files[path])

    def _close_w(self, path, text):
        r = self._op('close_w', path)
        if r == 'crash':
            self.files[path] = text[: len(text) // 2]  # torn write
            raise CrashInjected(f'close_w {path} (op {self.n_ops})')
        if r == 'oserror':
            self.files[path] = text[: len(text) // 2]
            raise OSError(5, 'injected I/O error while writing', path)
        self.files[path] = text

    def copy(self, src, dst):
        self._fault('copy', src)
        if src not in self.files:
            raise FileNotFoundError(2, 'No such file', src)
        self.files[dst] = self.files[src]

    def remove(self, path):
        self._fault('remove', path)
        if path not in self.files:
            raise FileNotFoundError(2, 'No such file', path)
        del self.files[path]
        self.removed.append(path)

    # -- matrix tables -------------------------------------------------------------------
    def write_mt(self, path, mt, overwrite):
        from hail.utils import FatalError

        path = path.rstrip('/')
        if self._exists(path) and not overwrite:
            self._fault('write_mt_refused', path)
            raise FatalError(f'file already exists: {path}')
        r = self._op('write_mt', path)
        old = self.mts.get(path)
        if old is not None and old.complete:
            self.overwritten.append((path, old.cols))
        if r == 'crash':
            self.mts[path] = MTRecord(mt.half, mt.cols, mt.globals, mt.entry, mt._type, False, self.n_ops)
            raise CrashInjected(f'write_mt {path} (op {self.n_ops})')
        if r == 'oserror':
            self.mts[path] = MTRecord(mt.half, mt.cols, mt.globals, mt.entry, mt._type, False, self.n_ops)
            raise OSError(5, 'injected I/O error while writing', path)
        self.mts[path] = MTRecord(mt.half, mt.cols, mt.globals, mt.entry, mt._type, True, self.n_ops)

    def read_mt(self, path):
        from hail.utils import FatalError

        path = path.rstrip('/')
        self._fault('read_mt', path)
        rec = self.mts.get(path)
        if rec is None:
            raise FatalError(f'MatrixTable or Table does not exist at path: {path}')
        if not rec.complete:
            raise FatalError(f'write failed: file is corrupted (no _SUCCESS): {path}')
        m = FakeMT(rec.half, rec.cols, rec.globals, rec.entry, rec.typ)
        return m

    def seed_vds(self, path, n_samples, ref_type, var_type, with_max_len, entry_ref=None):
        ref_p, var_p = os.path.join(path, 'reference_data'), os.path.join(path, 'variant_data')
        atom = (('v', path, n_samples),)
        g = ('ref_block_max_length',) if with_max_len else ()
        self.mts[ref_p] = MTRecord('ref', atom, frozenset(g), tuple(entry_ref or ('LGT', 'LEN', 'DP', 'GQ')), ref_type, True, 0)
        self.mts[var_p] = MTRecord('var', atom, frozenset(), ('LGT', 'LA', 'DP', 'GQ', 'gvcf_info'), var_type, True, 0)


# --------------------------------------------------------------------------------------------
# the world
# --------------------------------------------------------------------------------------------
class _Logger:
    def __init__(self, world):
        self.w = world

    def info(self, msg):
        self.w.messages.append(('info', msg))

    def warning(self, msg):
        self.w.messages.append(('warning', msg))

    def error(self, msg):
        self.w.messages.append(('error', msg))


class FakeBackend:
    def __init__(self, world):
        self.fs = world.fs
        self.logger = _Logger(world)
        self._world = world

    def get_reference(self, name):
        try:
            return self._world.references[name]
        except KeyError:
            raise KeyError(f'reference genome {name!r} not registered in the fake backend')

    def add_reference(self, rg):
        self._world.references[rg.name] = rg

    def _is_registered_ir_function_name(self, name):
        return False


_PASSTHROUGH = {
    'tlocus', 'tstruct', 'tarray', 'tinterval', 'tcall', 'tstr', 'tint32', 'tint64', 'tbool', 'tfloat64', 'tmatrix',
    'Interval', 'Struct', 'Locus', 'get_reference', 'current_backend', '__pip_version__', '__version__', 'ReferenceGenome',
}


class FakeHL:
    """the `hl` namespace of the combiner module"""

    def __init__(self, world, real_hl):
        self._w = world
        self._real = real_hl
        w = world

        self.utils = types.SimpleNamespace(
            range_table=lambda n, n_partitions=None: w._range_table(n, n_partitions),
            Interval=real_hl.utils.Interval, Struct=real_hl.utils.Struct, FatalError=real_hl.utils.FatalError,
        )
        self.agg = types.SimpleNamespace(collect=lambda e: _Agg('collect', E.lift(e)))
        self.vds = types.SimpleNamespace(
            read_vds=w.read_vds,
            write_variant_datasets=w.write_variant_datasets,
            store_ref_block_max_length=w.store_ref_block_max_length,
            VariantDataset=w.VDS,
        )
        self.Table = types.SimpleNamespace(_generate=w._generate)

    def __getattr__(self, name):
        if name in _PASSTHROUGH:
            return getattr(self._real, name)
        raise FakeEngineGap(f'hl.{name} is not modelled by the provenance fake')

    # ---- expression constructors -------------------------------------------------------
    def literal(self, x, dtype=None):
        return E.lift(x)

    def struct(self, **kw):
        return E(lambda i: {k: _deep(v, i) for k, v in kw.items()})

    def enumerate(self, e):
        e = E.lift(e)
        return E(lambda i: list(enumerate(e.ev(i))))

    def rbind(self, *args):
        *vals, f = args
        return f(*[E.lift(v) for v in vals])

    def is_defined(self, x):
        return E.lift(True)

    def eval(self, e):
        self._w.count('hl.eval')
        return E.lift(e).ev(None)

    def get_vcf_header_info(self, path):
        w = self._w
        path = E.lift(path)
        return E(lambda i: w._header_info(path.ev(i)))

    def import_gvcf_interval(self, path, idx, contig, start, end, header_info, call_fields=None, array_elements_required=None,
                             reference_genome=None, contig_recoding=None, **kw):
        if kw:
            raise FakeEngineGap(f'import_gvcf_interval keyword(s) {sorted(kw)}')
        return ImportStream(E.lift(path).ev(None), E.lift(idx).ev(None))

    def _zip_join_producers(self, contexts, stream_f, key, join_f):
        ctxs = E.lift(contexts).ev(None)
        streams = []
        for c in ctxs:
            s = stream_f(E.lift(c))
            if not isinstance(s, ImportStream):
                raise FakeEngineGap('zip-join producer did not return an import stream')
            streams.append(s)
        return ZipJoined(streams, list(key))

    def import_vcf(self, path, header_file=None, force_bgz=False, array_elements_required=True, reference_genome=None,
                   contig_recoding=None, **kw):
        w = self._w
        w._header_info(header_file or path)
        w.fs._fault('import_vcf', path)
        if path not in w.gvcfs:
            raise self._real.utils.FatalError(f'No file or directory found at {path}')
        return FakeMT('gvcf', (('g', path, None),), entry=('GT', 'DP', 'GQ', 'PGT', 'PL', 'MIN_DP'), typ=w.gvcf_type)

    def _get_flags(self, *names):
        return {n: self._w.flags.get(n) for n in names}

    def _set_flags(self, **kw):
        self._w.flags.update(kw)


class World:
    current = None

    def __init__(self, reference_genome, ref_type, var_type, gvcf_type, uuid_rng):
        self.fs = FakeFS()
        self.references = {reference_genome.name: reference_genome}
        self.rg = reference_genome
        self.ref_type, self.var_type, self.gvcf_type = ref_type, var_type, gvcf_type
        self.gvcfs = {}     # path -> sample id in the file's own header
        self.headers = {}   # external header files
        self.messages = []
        self.flags = {}
        self.counters = {}
        self.uuid_rng = uuid_rng
        self.generated = []   # (half, atoms) of every gvcf-merge table built (observability)
        self.merges = []      # list of tuples of input dataset paths read for one combine
        self.context_sample = None   # int: Table._generate evaluates its row function for at most this many contexts
        self.VDS = None

    def count(self, k, n=1):
        self.counters[k] = self.counters.get(k, 0) + n

    # ---- engine operations ---------------------------------------------------------------
    def _header_info(self, path):
        from hail.utils import FatalError, Struct

        if path in self.gvcfs:
            return Struct(sampleIDs=[self.gvcfs[path]], infoFields=[], formatFields=[], filterAttrs={}, infoAttrs={}, formatAttrs={}, infoFlagFields=[])
        if path in self.headers:
            return Struct(sampleIDs=[self.headers[path]], infoFields=[], formatFields=[], filterAttrs={}, infoAttrs={}, formatAttrs={}, infoFlagFields=[])
        raise FatalError(f'No file or directory found at {path}')

    def _range_table(self, n, n_partitions):
        if n_partitions is not None and not (1 <= n_partitions <= max(n, 1)):
            from hail.utils import FatalError

            raise FatalError(f'range_table: invalid n_partitions {n_partitions} for n={n}')
        return FakeRangeTable(n)

    def _generate(self, contexts=None, partitions=None, rowfn=None, globals=None, **kw):
        from hail.utils import FatalError

        if kw:
            raise FakeEngineGap(f'Table._generate keyword(s) {sorted(kw)}')
        if self.context_sample and isinstance(contexts, E):
            # the same row-independent literal is passed for every table of a step: evaluate it once per expression object
            d = contexts.__dict__
            if '_ev_none' not in d:
                d['_ev_none'] = contexts.ev(None)
            ctxs = d['_ev_none']
        else:
            ctxs = E.lift(contexts).ev(None)
        if len(ctxs) != len(partitions):
            raise FatalError('Table._generate: contexts and partitions differ in length')
        gl = E.lift(globals).ev(None)
        per_ctx = []
        k = self.context_sample
        if k and len(ctxs) > k:
            # very long import-interval lists (thousands of partitions): the row function is evaluated for the first, the
            # last and evenly spaced contexts only (deterministic); the length check above still sees every context
            n = len(ctxs)
            picked = sorted({0, n - 1} | {(j * (n - 1)) // (k - 1) for j in range(k)} if k > 1 else {0})
            self.count('generate_contexts_not_evaluated', n - len(picked))
            ctxs = [ctxs[j] for j in picked]
        for c in ctxs:
            z = rowfn(E.lift(c), E.lift(gl))
            if not isinstance(z, ZipJoined):
                raise FakeEngineGap('rowfn did not return a zip join')
            per_ctx.append(tuple((s.idx, s.path, s.half) for s in z.streams))
        if not per_ctx:
            raise FatalError('Table._generate: no partitions')
        if any(p != per_ctx[0] for p in per_ctx):
            raise FatalError('provenance fake: the set of imported files differs between partitions')
        streams = per_ctx[0]
        halves = {h for _, _, h in streams}
        if len(halves) != 1 or None in halves:
            raise FakeEngineGap(f'streams of one table tagged {halves}')
        if [i for i, _, _ in streams] != list(range(len(streams))):
            raise FatalError('provenance fake: file indices are not 0..n-1 in order')
        g = gl['g']
        if len(g) != len(streams):
            raise FatalError(f'globals describe {len(g)} inputs but {len(streams)} files are imported')
        for path in (p for _, p, _ in streams):
            if path not in self.gvcfs:
                raise FatalError(f'No file or directory found at {path}')
            self.fs._fault('import_gvcf', path)
        cols = tuple(('g', path, g[i]['__cols'][0]['s']) for i, path, _ in streams)
        half = halves.pop()
        self.generated.append((half, cols))
        self.count('generate')
        return FakeTable(half, cols)

    def read_vds(self, path, *, intervals=None, n_partitions=None, _assert_reference_type=None, _assert_variant_type=None,
                 _warn_no_ref_block_max_length=True, _drop_end=False):
        from hail.utils import FatalError

        ref = self.fs.read_mt(self.VDS._reference_path(path))
        var = self.fs.read_mt(self.VDS._variants_path(path))
        if _assert_reference_type is not None and ref._type is not None and not self._same_type(ref._type, _assert_reference_type):
            raise FatalError(f'reference type mismatch reading {path}')
        if _assert_variant_type is not None and var._type is not None and not self._same_type(var._type, _assert_variant_type):
            raise FatalError(f'variant type mismatch reading {path}')
        if self.fs.extra.get(path):
            ref = ref._copy(globals_=set(ref.globals) | {'ref_block_max_length'})
        self.count('read_vds')
        return self.VDS(ref, var)

    _type_str = {}

    def _same_type(self, a, b):
        """type equality through the (memoised) printed form; objects are kept alive so ids stay unique"""
        if a is b:
            return True
        out = []
        for t in (a, b):
            e = World._type_str.get(id(t))
            if e is None or e[0] is not t:
                if len(World._type_str) > 5000:
                    World._type_str.clear()
                e = World._type_str[id(t)] = (t, str(t))
            out.append(e[1])
        return out[0] == out[1]

    def write_variant_datasets(self, vdss, paths, *, overwrite=False, stage_locally=False, codec_spec=None):
        from hail.utils import FatalError

        if len(vdss) != len(paths):
            raise FatalError('write_variant_datasets: number of datasets and paths differ')
        for v, p in zip(vdss, paths):
            self.fs.write_mt(f'{p}/reference_data', v.reference_data, overwrite)
        for v, p in zip(vdss, paths):
            self.fs.write_mt(f'{p}/variant_data', v.variant_data, overwrite)
        self.count('write_variant_datasets')

    def store_ref_block_max_length(self, vds_path):
        self.fs._fault('store_ref_block_max_length', vds_path)
        self.read_vds(vds_path, _warn_no_ref_block_max_length=False)
        self.fs.extra[vds_path] = True
        self.count('store_ref_block_max_length')

    # ---- replacements for engine-level functions imported into the combiner module --------
    def combine_variant_datasets(self, vdss):
        vdss = list(vdss)
        ref = tuple(a for v in vdss for a in v.reference_data.cols)
        var = tuple(a for v in vdss for a in v.variant_data.cols)
        has = bool(vdss) and all('ref_block_max_length' in v.reference_data.globals for v in vdss)
        self.count('combine_variant_datasets')
        typ_r = vdss[0].reference_data._type if vdss else None
        typ_v = vdss[0].variant_data._type if vdss else None
        return self.VDS(
            FakeMT('ref', ref, globals_=('ref_block_max_length',) if has else (), entry=vdss[0].reference_data.entry if vdss else None, typ=typ_r),
            FakeMT('var', var, typ=typ_v),
        )

    def combine_r(self, ts, ref_block_max_len_field):
        return FakeTable(ts.half, ts.cols, combined=True)

    def combine(self, ts):
        return FakeTable(ts.half, ts.cols, combined=True)

    def calculate_new_intervals(self, mt, desired_average_partition_size, tmp_path):
        self.fs._fault('interval_checkpoint', tmp_path)
        self.count('calculate_new_intervals')
        return ['<intervals for %d samples>' % mt.count_cols()], None

    def make_reference_stream(self, stream, entry_to_keep, save_filters):
        return ImportStream(stream.path, stream.idx, 'ref', entry_to_keep)

    def make_variant_stream(self, stream, info_to_keep, save_filters):
        return ImportStream(stream.path, stream.idx, 'var', info_to_keep)

    def transform_gvcf(self, mt, reference_entry_fields_to_keep=None, info_to_keep=None, save_filters=False):
        return self.VDS(FakeMT('ref', mt.cols, typ=self.ref_type), FakeMT('var', mt.cols, typ=self.var_type))

    def defined_entry_fields(self, mt, sample=None):
        return {'DP', 'GQ', 'MIN_DP', 'PGT', 'PL'}

    # ---- installation ---------------------------------------------------------------------
    @contextlib.contextmanager
    def install(self):
        import hail as real_hl
        import hail.vds.combiner.variant_dataset_combiner as vdc
        from hail.utils.java import Env
        from hail.vds.variant_dataset import VariantDataset as RealVDS

        if self.VDS is None:
            self.VDS = _make_fake_vds_class(RealVDS)
        saved = {n: getattr(vdc, n) for n in (
            'hl', 'VariantDataset', 'combine_r', 'combine', 'combine_variant_datasets', 'calculate_new_intervals',
            'make_reference_stream', 'make_variant_stream', 'transform_gvcf', 'defined_entry_fields', 'uuid')}
        saved_hc = Env._hc
        prev = World.current
        rng = self.uuid_rng
        try:
            Env._hc = types.SimpleNamespace(_backend=FakeBackend(self))
            vdc.hl = FakeHL(self, real_hl)
            vdc.VariantDataset = self.VDS
            for n in ('combine_r', 'combine', 'combine_variant_datasets', 'calculate_new_intervals', 'make_reference_stream',
                      'make_variant_stream', 'transform_gvcf', 'defined_entry_fields'):
                setattr(vdc, n, getattr(self, n))
            fake_uuid = types.ModuleType('uuid')
            fake_uuid.__dict__.update({k: v for k, v in vars(_real_uuid).items() if not k.startswith('__')})
            fake_uuid.uuid4 = lambda: _real_uuid.UUID(int=rng.getrandbits(128), version=4)  # seeded: runs are replayable
            vdc.uuid = fake_uuid
            World.current = self
            yield vdc
        finally:
            World.current = prev
            Env._hc = saved_hc
            for n, v in saved.items():
                setattr(vdc, n, v)


def load_reference(repo, name):
    """the REAL ReferenceGenome object with the repository's own contig table (no backend needed)"""
    from hail.genetics.reference_genome import ReferenceGenome

    p = os.path.join(repo, 'hail', 'hail', 'resources', 'reference', name.lower() + '.json')
    with open(p) as f:
        cfg = json.load(f)
    return ReferenceGenome._from_config(cfg, _builtin=True)


def synthetic_reference(name, lengths, like):
    """a ReferenceGenome named GRCh37/GRCh38 whose listed contigs have the given lengths"""
    from hail.genetics.reference_genome import ReferenceGenome

    contigs = list(lengths)
    return ReferenceGenome(name, contigs, dict(lengths), like._config['xContigs'][:1], like._config['yContigs'][:1], like._config['mtContigs'][:1], [], True)
