"""Virtual-time asyncio event loop.

``loop.time()`` is a logical clock that jumps forward exactly when the loop would otherwise block
waiting for the next timer.  Ready-callback FIFO order is untouched (asyncio documents it), so
every interleaving explored is one the real program can exhibit; variety comes from the seeded
virtual durations that the workloads choose.  Verdicts never depend on wall-clock time.
"""
import asyncio
import selectors
import time as _real_time
import types


class Deadlock(Exception):
    """the loop would block for ever: nothing ready, no timer, main coroutine not finished"""


class StepLimit(Exception):
    pass


class _VSelector:
    def __init__(self, loop, real):
        self._loop = loop
        self._real = real

    def select(self, timeout=None):
        lp = self._loop
        lp.steps += 1
        if lp.max_steps is not None and lp.steps > lp.max_steps:
            raise StepLimit(f'more than {lp.max_steps} loop iterations')
        if timeout is None:
            if lp.allow_block:
                # real threads may wake us through the self-pipe
                ev = self._real.select(lp.block_poll_s)
                lp.blocked_wall += lp.block_poll_s
                if not ev and lp.blocked_wall > lp.max_block_wall_s:
                    raise Deadlock(f'blocked > {lp.max_block_wall_s}s wall with nothing scheduled')
                return ev
            raise Deadlock('nothing ready and no timer scheduled')
        if timeout > 0:
            if lp.allow_block and lp.outstanding_real_work():
                ev = self._real.select(min(timeout, 0.002))
                return ev
            # jump exactly onto the next timer: adding a rounded difference can land one ulp short
            sched = lp._scheduled
            target = lp._vtime + timeout
            if sched:
                when = sched[0]._when
                if abs(when - target) <= 1e-6 or target >= when:
                    target = when
            lp._vtime = max(lp._vtime, target)
            lp.time_jumps += 1
        return self._real.select(0)

    def __getattr__(self, name):
        return getattr(self._real, name)


class VirtualLoop(asyncio.SelectorEventLoop):
    def __init__(self, start=1_700_000_000.0, max_steps=2_000_000, allow_block=False):
        super().__init__(selectors.DefaultSelector())
        self._vtime = float(start)
        self.steps = 0
        self.time_jumps = 0
        self.max_steps = max_steps
        self.allow_block = allow_block
        self.block_poll_s = 0.005
        self.blocked_wall = 0.0
        self.max_block_wall_s = 60.0
        self._real_work = 0
        self._selector = _VSelector(self, self._selector)
        self._clock_resolution = 1e-6  # > ulp(1.7e9): a timer due exactly "now" must fire

    def time(self):
        return self._vtime

    def outstanding_real_work(self):
        return self._real_work > 0

    def run_in_executor(self, executor, func, *args):
        fut = super().run_in_executor(executor, func, *args)
        self._real_work += 1

        def done(_):
            self._real_work -= 1

        fut.add_done_callback(done)
        return fut

    def advance(self, dt):
        """explicitly move the clock (between operations of a sequential workload)"""
        self._vtime += dt

    # a `time`-module look-alike bound to this loop, for redirecting module-level `time` imports
    def time_module(self):
        lp = self
        m = types.SimpleNamespace()
        m.time = lambda: lp._vtime
        m.monotonic = lambda: lp._vtime
        m.perf_counter = lambda: lp._vtime
        m.time_ns = lambda: int(lp._vtime * 1e9)
        m.monotonic_ns = lambda: int(lp._vtime * 1e9)
        m.sleep = lambda s: lp.advance(s)
        m.gmtime = _real_time.gmtime
        m.strftime = _real_time.strftime
        m.localtime = _real_time.localtime
        return m


def run_virtual(main, *, start=1_700_000_000.0, max_steps=2_000_000, allow_block=False, loop_out=None):
    """Run coroutine function/object `main` to completion on a fresh VirtualLoop.

    Returns its result.  Raises Deadlock / StepLimit (=> the caller decides: usually a liveness
    witness or INCONCLUSIVE).  All tasks still pending afterwards are cancelled and drained."""
    loop = VirtualLoop(start=start, max_steps=max_steps, allow_block=allow_block)
    if loop_out is not None:
        loop_out.append(loop)
    asyncio.set_event_loop(loop)
    try:
        coro = main(loop) if callable(main) else main
        return loop.run_until_complete(coro)
    finally:
        try:
            pending = [t for t in asyncio.all_tasks(loop) if not t.done()]
            for t in pending:
                t.cancel()
            if pending:
                loop.max_steps = None
                loop.allow_block = False
                try:
                    loop.run_until_complete(asyncio.gather(*pending, return_exceptions=True))
                except (Deadlock, StepLimit, RuntimeError):
                    pass
            try:
                loop.run_until_complete(loop.shutdown_asyncgens())
            except Exception:
                pass
        finally:
            asyncio.set_event_loop(None)
            loop.close()
