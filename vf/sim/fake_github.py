"""Protocol fakes for C30: GitHub as the CI service talks to it, the batch service client, the CI database,
and the shell / build-configuration layer of ``ci.github`` (so ``_start_build`` creates a batch without git).

GitHub semantics assumed (https://docs.github.com/en/rest/pulls/pulls#merge-a-pull-request and the GraphQL schema):
* ``PUT /repos/{r}/pulls/{n}/merge`` with ``sha``: 409 unless ``sha`` is the pull request's current head; 405 when the pull
  request is not open or cannot be merged (conflict); otherwise the pull request is merged and the base branch gets a
  new commit.  Branch protection is deliberately NOT enforced by the fake (the property is about CI's own gating).
* commit statuses / check runs belong to commits; ``statusCheckRollup`` of ``commits(last: 1)`` is the rollup of the pull
  request's head at the time of the query (null when the commit has no status), paginated by ``first: 10``.
* ``reviewDecision`` belongs to the pull request; pushing dismisses approvals only when the repository says so.

Everything CI is *told* is recorded (``fetched``): the oracle works on the last state CI fetched, not on ground truth.
"""
import asyncio
import re
import types

DO_NOT_MERGE_LABELS = frozenset({'WIP', 'stacked PR'})   # ci/ci/github.py DO_NOT_MERGE (hard-coded on purpose)

SUCCESS_STATES = {'SUCCESS', 'NEUTRAL'}


class PRState:
    def __init__(self, number, author, head, ref):
        self.number = number
        self.author = author
        self.head = head
        self.ref = ref
        self.labels = set()
        self.review = 'REVIEW_REQUIRED'
        self.open = True
        self.merged = False
        self.heads = [head]
        self.body = 'body'
        self.conflicts = False


class Fault(Exception):
    pass


class GitHubWorld:
    def __init__(self, rng, loop, gmod, required, review_required=True, dismiss_stale=False, error_rate=0.0, ci_context='ci-test'):
        self.rng = rng
        self.loop = loop
        self.g = gmod                      # the ci.github module (for its exception classes)
        self.owner, self.name, self.branch = 'hail-is', 'hail', 'main'
        self.required = set(required)      # contexts required by branch protection (only reported through isRequired)
        self.review_required = review_required
        self.dismiss_stale = dismiss_stale
        self.error_rate = error_rate
        self.ci_context = ci_context
        self.n_sha = 0
        self.target_sha = self.new_sha('t')
        self.prs = {}
        self.commits = {}                  # sha -> ordered dict context -> (typename, state)
        self.next_number = 100
        self.fetched_ref = None            # (t, sha)
        self.fetched_list = {}             # number -> (t, head, labels)
        self.fetched_gql = {}              # number -> dict(t, head, review, contexts)   (complete snapshots only)
        self._gql_partial = {}
        self.own_posts = []                # accepted status posts by CI: (t, sha, context, STATE)
        self.failed_posts = []             # refused status posts: (t, sha, context, STATE)
        self.merges = []                   # accepted merges (dicts)
        self.refused_puts = []             # (t, number, sha, code)
        self.merges_since_ref_fetch = 0
        self.log = []
        self.api_calls = 0
        self.api_errors = 0
        # ---- fault plans ("fail the next n requests of one kind after the j-th event of one kind") ------------
        self.fault_plans = []              # dicts kind / after / nth / count (+ state armed / seen / left / delivered)
        self.ev_counts = {}                # world-event name -> how many so far (what fault plans are anchored to)
        self.planned_faults = {}           # kind -> planned faults delivered
        # ---- what CI has been TOLD about the target branch: by a successful ref fetch, or by GitHub's answer to a
        #      merge of its own (the PUT response carries the new target commit) --------------------------------
        self.told_target = None            # (t, sha, 'fetch' | 'own-merge')
        self.consumed_targets = {}         # target commit CI has merged a pull request onto (the one it had fetched
        #                                    and the real one at that instant) -> number of the pull request merged
        self.ref_failures_after_own_merge = 0   # failed ref fetches while the newest thing CI knows is its own merge

    def now(self):
        return round(self.loop.time() - 1_700_000_000.0, 3)

    def new_sha(self, prefix='c'):
        self.n_sha += 1
        return f'{prefix}{self.n_sha:04d}' + 'a' * 8

    def ev(self, *what):
        if len(self.log) < 5000:
            self.log.append((self.now(),) + what)
        n = self.ev_counts[what[0]] = self.ev_counts.get(what[0], 0) + 1
        for p in self.fault_plans:
            if not p['armed'] and p['after'] is not None and p['after'][0] == what[0] and p['after'][1] == n:
                p['armed'] = True

    def plan_fault(self, kind, after=None, nth=1, count=1):
        """fail `count` consecutive requests of `kind` ('ref', 'pulls', 'graphql', 'post-status', 'merge', 'assignees'), starting
        with the `nth` one issued after the `after[1]`-th world event named `after[0]` ('MERGED', 'target', 'push', ...;
        None = counted from the start of the history).  Errors are delivered before the request has any effect."""
        self.fault_plans.append({'kind': kind, 'after': tuple(after) if after else None, 'nth': nth, 'count': count,
                                 'armed': after is None, 'seen': 0, 'left': count, 'delivered': 0})

    def _planned_fault(self, what):
        hit = False
        for p in self.fault_plans:
            if p['kind'] != what or not p['armed'] or p['left'] <= 0:
                continue
            p['seen'] += 1
            if p['seen'] >= p['nth'] and not hit:
                p['left'] -= 1
                p['delivered'] += 1
                hit = True
        return hit

    def _note_error(self, what):
        self.api_errors += 1
        self.ev('api-error', what)
        if what == 'ref' and self.told_target is not None and self.told_target[2] == 'own-merge':
            self.ref_failures_after_own_merge += 1

    # ---- world-side mutations (the workload) -------------------------------------------------
    def open_pr(self, author):
        n = self.next_number
        self.next_number += 1
        pr = PRState(n, author, self.new_sha('s'), f'feature-{n}')
        self.prs[n] = pr
        self.ev('open', n, pr.head)
        return pr

    def push(self, pr, conflicts=False):
        pr.head = self.new_sha('s')
        pr.heads.append(pr.head)
        pr.conflicts = conflicts
        if self.dismiss_stale and pr.review == 'APPROVED':
            pr.review = 'REVIEW_REQUIRED'
        self.ev('push', pr.number, pr.head)

    def set_status(self, sha, context, state, typename='StatusContext'):
        self.commits.setdefault(sha, {})[context] = (typename, state)
        self.ev('status', sha, context, state)

    def move_target(self):
        self.target_sha = self.new_sha('t')
        self.ev('target', self.target_sha)

    # ---- transport ----------------------------------------------------------------------------
    async def _call(self, what, can_fail=True):
        self.api_calls += 1
        await asyncio.sleep(self.rng.choice([0.05, 0.1, 0.2, 0.4, 1.5]))
        if can_fail and self.fault_plans and self._planned_fault(what):
            self.planned_faults[what] = self.planned_faults.get(what, 0) + 1
            self._note_error(what)
            raise self._http_error(self.rng.choice([502, 500, 403, 504]))
        if can_fail and self.rng.random() < self.error_rate:
            self._note_error(what)
            raise self._http_error(self.rng.choice([502, 500, 403, 504]))

    def _http_error(self, code, kind=None):
        g = self.g
        if kind == 'aiohttp' or (kind is None and self.rng.random() < 0.25):
            ri = types.SimpleNamespace(real_url='https://api.github.invalid/', method='GET', headers={}, url='https://api.github.invalid/')
            return g.aiohttp.client_exceptions.ClientResponseError(ri, (), status=code, message='injected')
        e = g.gidgethub.HTTPException()
        e.status_code = code
        return e

    def client(self):
        return FakeGitHubClient(self)

    # ---- snapshots ----------------------------------------------------------------------------
    def contexts_of(self, sha):
        out = []
        for ctx_name, (typename, state) in self.commits.get(sha, {}).items():
            out.append({'typename': typename, 'name': ctx_name, 'state': state, 'required': ctx_name in self.required})
        return out

    def knowledge(self, number, sha):
        """what CI has been told about the checks of `sha`: the last complete rollup it fetched for this pull request,
        overlaid with the status posts of its own that GitHub accepted since.  -> (snapshot or None, dict ctx -> STATE)"""
        snap = self.fetched_gql.get(number)
        known = {}
        t0 = -1.0
        if snap is not None and snap['head'] == sha:
            t0 = snap['t']
            for c in snap['contexts']:
                if c['required'] or c['name'] == self.ci_context:
                    known[c['name']] = c['state']
        for t, s, ctx_name, state in self.own_posts:
            if s == sha and t >= t0:
                known[ctx_name] = state
        return snap, known


class FakeGitHubClient:
    """the subset of gidgethub.aiohttp.GitHubAPI that ci.github uses"""

    def __init__(self, world):
        self.w = world

    async def getitem(self, url):
        w = self.w
        m = re.fullmatch(r'/repos/([^/]+/[^/]+)/git/refs/heads/(.+)', url)
        if not m:
            raise AssertionError(f'fake github: unexpected GET {url}')
        await w._call('ref')
        w.fetched_ref = (w.now(), w.target_sha)
        w.told_target = (w.now(), w.target_sha, 'fetch')
        w.merges_since_ref_fetch = 0
        w.ev('fetch-ref', w.target_sha)
        return {'ref': f'refs/heads/{m.group(2)}', 'object': {'sha': w.target_sha, 'type': 'commit'}}

    async def getiter(self, url):
        w = self.w
        if not re.fullmatch(r'/repos/[^/]+/[^/]+/pulls\?state=open&base=.+', url):
            raise AssertionError(f'fake github: unexpected GET (iter) {url}')
        await w._call('pulls')
        items = []
        t = w.now()
        for pr in sorted(w.prs.values(), key=lambda p: -p.number):
            if not pr.open:
                continue
            w.fetched_list[pr.number] = (t, pr.head, frozenset(pr.labels))
            items.append({
                'number': pr.number, 'title': f'PR {pr.number}', 'body': pr.body, 'state': 'open',
                'user': {'login': pr.author}, 'assignees': [{'login': 'someone'}], 'requested_reviewers': [],
                'labels': [{'name': name} for name in sorted(pr.labels)],
                'head': {'sha': pr.head, 'ref': pr.ref, 'repo': {'owner': {'login': pr.author}, 'name': w.name}},
                'base': {'sha': w.target_sha, 'ref': w.branch, 'repo': {'owner': {'login': w.owner}, 'name': w.name}},
            })
        w.ev('fetch-list', tuple((i['number'], i['head']['sha']) for i in items))
        for it in items:
            yield it

    async def post(self, url, data=None):
        w = self.w
        if url == '/graphql':
            return await self._graphql(data['query'])
        m = re.fullmatch(r'/repos/[^/]+/[^/]+/statuses/(\w+)', url)
        if m:
            sha = m.group(1)
            state = str(data['state']).upper()
            try:
                await w._call('post-status')
            except Exception:
                w.failed_posts.append((w.now(), sha, data['context'], state))
                raise
            w.set_status(sha, data['context'], state)
            w.own_posts.append((w.now(), sha, data['context'], state))
            w.ev('ci-status', sha, data['context'], state)
            return {}
        if re.fullmatch(r'/repos/[^/]+/[^/]+/issues/\d+/assignees', url):
            await w._call('assignees')
            return {}
        raise AssertionError(f'fake github: unexpected POST {url}')

    async def _graphql(self, query):
        w = self.w
        m = re.search(r'pullRequest \(number: (\d+)\)', query)
        if not m or 'statusCheckRollup' not in query or 'reviewDecision' not in query:
            raise AssertionError('fake github: unexpected GraphQL query')
        number = int(m.group(1))
        cur = re.search(r'after: "(\d+)"', query)
        first = re.search(r'contexts \(first: (\d+)', query)
        page = int(first.group(1)) if first else 10
        start = int(cur.group(1)) if cur else 0
        await w._call('graphql')
        pr = w.prs[number]
        ctxs = w.contexts_of(pr.head)
        review = pr.review if w.review_required else None
        if start == 0:
            w._gql_partial[number] = {'head': pr.head, 'review': review, 'contexts': [], 'torn': False}
        part = w._gql_partial.setdefault(number, {'head': pr.head, 'review': review, 'contexts': [], 'torn': True})
        if part['head'] != pr.head:
            part['torn'] = True   # the head moved between two pages: CI assembles pages of different commits
        nodes = ctxs[start:start + page]
        has_next = start + page < len(ctxs)
        part['contexts'].extend(nodes)
        if not has_next:
            w.fetched_gql[number] = {'t': w.now(), 'head': part['head'], 'review': part['review'], 'contexts': list(part['contexts']), 'torn': part['torn']}
            w._gql_partial.pop(number, None)
            w.ev('fetch-gql', number, pr.head, review, tuple((c['name'], c['state']) for c in part['contexts'] if c['required']))
        rollup = None
        if ctxs:
            rollup = {'contexts': {
                'nodes': [
                    ({'__typename': 'StatusContext', 'context': c['name'], 'state': c['state'], 'isRequired': c['required']}
                     if c['typename'] == 'StatusContext' else
                     {'__typename': 'CheckRun', 'name': c['name'], 'conclusion': c['state'], 'isRequired': c['required']})
                    for c in nodes],
                'pageInfo': {'endCursor': str(start + page), 'hasNextPage': has_next},
            }}
        return {'data': {'repository': {'pullRequest': {'reviewDecision': review, 'commits': {'nodes': [{'commit': {'statusCheckRollup': rollup}}]}}}}}

    async def put(self, url, data=None):
        w = self.w
        m = re.fullmatch(r'/repos/[^/]+/[^/]+/pulls/(\d+)/merge', url)
        if not m:
            raise AssertionError(f'fake github: unexpected PUT {url}')
        number = int(m.group(1))
        sha = data.get('sha')
        await w._call('merge')   # errors are injected BEFORE the effect only (an error after the effect is ambiguous for any client)
        pr = w.prs.get(number)
        code = None
        if pr is None:
            code = 404
        elif not pr.open:
            code = 405
        elif sha is not None and sha != pr.head:
            code = 409
        elif pr.conflicts:
            code = 405
        if code is not None:
            w.refused_puts.append((w.now(), number, sha, code))
            w.ev('merge-refused', number, sha, code)
            raise w._http_error(code, kind='gidgethub')
        # ---- accepted: record ground truth and what CI had fetched ------------------------------
        snap, known = w.knowledge(number, pr.head)
        rec = {
            't': w.now(), 'number': number, 'sha': pr.head,
            'truth': {'review': pr.review, 'labels': sorted(pr.labels), 'target': w.target_sha,
                      'contexts': [(c['name'], c['state'], c['required']) for c in w.contexts_of(pr.head)]},
            'fetched_ref': w.fetched_ref, 'fetched_list': w.fetched_list.get(number), 'fetched_gql': snap, 'known_checks': dict(known),
            'merges_since_ref_fetch': w.merges_since_ref_fetch,
            'failed_own_posts': [p for p in w.failed_posts if p[1] == pr.head],
            'told_target': w.told_target, 'consumed_targets': dict(w.consumed_targets),
        }
        w.merges.append(rec)
        w.merges_since_ref_fetch += 1
        w.consumed_targets[w.target_sha] = number
        if w.fetched_ref is not None:
            w.consumed_targets.setdefault(w.fetched_ref[1], number)
        pr.open = False
        pr.merged = True
        w.target_sha = w.new_sha('t')
        w.told_target = (w.now(), w.target_sha, 'own-merge')
        w.ev('MERGED', number, pr.head, w.target_sha)
        return {'merged': True, 'sha': w.target_sha}


# ==============================================================================================
# batch service as CI sees it
# ==============================================================================================
class FakeBatch:
    """stands for hailtop.batch_client.aioclient.Batch (ci.github.Batch is pointed here)"""

    def __init__(self, svc, attributes, callback):
        self.svc = svc
        self.attributes = dict(attributes)
        self.callback = callback
        self.id = None
        self.state = 'open'
        self.jobs = []
        self.created = None

    @property
    def complete(self):
        return self.state in ('success', 'failure', 'cancelled')

    def create_job(self, *a, **k):
        self.jobs.append((a, k))
        return types.SimpleNamespace(job_id=len(self.jobs))

    async def submit(self, *a, **k):
        svc = self.svc
        await svc._call('submit')
        svc.next_id += 1
        self.id = svc.next_id
        self.state = 'running'
        self.created = svc.world.now()
        svc.batches.append(self)
        svc.world.ev('batch-submit', self.id, dict((k, v) for k, v in self.attributes.items() if k != 'token'))
        svc.on_submit(self)
        return self

    async def status(self):
        await self.svc._call('status')
        return self._status()

    def _status(self):
        return {'id': self.id, 'state': self.state, 'complete': self.complete, 'attributes': dict(self.attributes),
                'n_jobs': len(self.jobs), 'closed': True, 'time_created': self.created}

    async def last_known_status(self):
        return self._status()

    async def cancel(self):
        await self.svc._call('cancel', can_fail=False)
        if not self.complete and self.id is not None:
            self.state = 'cancelled'
            self.svc.world.ev('batch-cancel', self.id)

    async def delete(self):
        await self.cancel()
        if self in self.svc.batches:
            self.svc.batches.remove(self)


class FakeBatchService:
    def __init__(self, world, rng, error_rate=0.0):
        self.world = world
        self.rng = rng
        self.batches = []
        self.next_id = 0
        self.error_rate = error_rate
        self.on_submit = lambda b: None

    async def _call(self, what, can_fail=True):
        await asyncio.sleep(self.rng.choice([0.02, 0.05, 0.3]))
        if can_fail and self.rng.random() < self.error_rate:
            self.world.ev('batch-api-error', what)
            ri = types.SimpleNamespace(real_url='https://batch.invalid/', method='GET', headers={}, url='https://batch.invalid/')
            raise self.world.g.aiohttp.client_exceptions.ClientResponseError(ri, (), status=500, message='injected')

    def create_batch(self, attributes=None, callback=None, **kw):
        return FakeBatch(self, attributes or {}, callback)

    async def list_batches(self, q=None, **kw):
        await self._call('list')
        toks = (q or '').split()
        out = []
        for b in sorted(self.batches, key=lambda b: -b.id):
            ok = True
            for t in toks:
                if t == 'user:ci' or t.startswith('user'):
                    continue
                if t == '!complete':
                    ok = ok and not b.complete
                elif t == 'complete':
                    ok = ok and b.complete
                elif t == '!open':
                    ok = ok and b.state != 'open'
                elif '=' in t:
                    k, v = t.split('=', 1)
                    ok = ok and b.attributes.get(k) == v
                else:
                    raise AssertionError(f'fake batch: unexpected query token {t!r}')
            if ok:
                out.append(b)
        for b in out:
            yield b


class FakeDB:
    def __init__(self):
        self.authorized_shas = set()
        self.invalidated = set()
        self.statements = 0

    async def execute_and_fetchone(self, sql, args=None, **kw):
        self.statements += 1
        await asyncio.sleep(0)
        a = args[0] if isinstance(args, (tuple, list)) else args
        if 'authorized_shas' in sql:
            return {'sha': a} if a in self.authorized_shas else None
        if 'invalidated_batches' in sql:
            return {'batch_id': a} if a in self.invalidated else None
        raise AssertionError(f'fake db: unexpected statement {sql!r}')

    async def select_and_fetchone(self, sql, args=None, **kw):
        self.statements += 1
        return None

    async def execute_insertone(self, sql, args=None, **kw):
        self.statements += 1
        return 1

    async def execute_many(self, sql, args=None, **kw):
        self.statements += 1

    async def just_execute(self, sql, args=None, **kw):
        self.statements += 1


# ==============================================================================================
# shell / build configuration layer of ci.github
# ==============================================================================================
class FakeBuildConfiguration:
    def __init__(self, code, config_str, scope, requested_step_names=(), **kw):
        self.code = code
        self.scope = scope

    def namespace(self):
        return f'{self.code.short_str()}-ns'

    def deployed_services(self):
        return []

    def build(self, batch, code, scope):
        batch.create_job('ubuntu', ['true'], attributes={'name': 'step'})


def install(g, world, svc):
    """point ci.github's module-level names at the fakes; -> restore()"""
    import io

    saved = {n: g.__dict__.get(n, _MISSING) for n in ('check_shell', 'check_shell_output', 'open', 'BuildConfiguration', 'Batch',
                                                       'add_deployed_services', 'repos_lock', 'zulip_client')}

    async def check_shell(script, **kw):
        await asyncio.sleep(world.rng.choice([1.0, 5.0, 20.0]))
        m = re.search(r"git merge (\S+)", script)
        if m:
            src = m.group(1).strip("'\"")
            for pr in world.prs.values():
                if src in pr.heads and pr.conflicts and src == pr.head:
                    raise RuntimeError(f'git merge {src}: CONFLICT (content)')
        world.last_checkout = (re.search(r"git checkout (\S+)", script).group(1).strip("'\"") if re.search(r"git checkout (\S+)", script) else None,
                               m.group(1).strip("'\"") if m else None)

    async def check_shell_output(script, **kw):
        await asyncio.sleep(0.05)
        t, s = getattr(world, 'last_checkout', (None, None))
        return (f'm-{t}-{s}\n'.encode(), b'')

    def fake_open(path, *a, **k):
        return io.StringIO('steps: []\n')

    async def add_deployed_services(db, namespace, services, expiration):
        return None

    g.check_shell = check_shell
    g.check_shell_output = check_shell_output
    g.open = fake_open
    g.BuildConfiguration = FakeBuildConfiguration
    g.Batch = FakeBatch
    g.add_deployed_services = add_deployed_services
    g.repos_lock = asyncio.Lock()
    g.zulip_client = None

    def restore():
        for n, v in saved.items():
            if v is _MISSING:
                g.__dict__.pop(n, None)
            else:
                setattr(g, n, v)

    return restore


_MISSING = object()
