"""Quiescent-point hook for the virtual loop (shared by the C16 / C40 monitors).

A *quiescent point* is an instant of logical time at which no callback is runnable: the loop is
about to jump its clock to the next timer (``select(timeout > 0)``) or would block for ever
(``select(None)``, which the virtual selector turns into ``Deadlock``).  asyncio's ``_run_once``
passes ``timeout == 0`` whenever a ready callback exists or a timer is already due, so these two
cases are exactly "nothing can happen any more at this instant".  Liveness / conservation oracles
are decided at these points, on logical time only.

``vf/sim/vloop.py`` is not modified: the hook shadows ``select`` on the loop's selector *instance*.
"""


def on_quiescent(loop, callback):
    """Call ``callback()`` (no arguments, must not raise) at every quiescent point of ``loop``."""
    sel = loop._selector
    orig = sel.select

    def select(timeout=None):
        if timeout is None or timeout > 0:
            callback()
        return orig(timeout)

    sel.select = select
