"""Protocol fakes for hailtop's cloud filesystems (used by monitors C22 / C23).

Nothing here looks at what the repository code *sends* in order to decide what to answer: every fake
parses the request according to the published protocol of the service and answers from an
in-memory object store.

* ``parse_range`` -- RFC 9110 section 14.1.2 byte ranges (``bytes=a-b`` inclusive, ``bytes=a-``,
  ``bytes=-n``; invalid when last < first; unsatisfiable when no first-pos < length and no non-zero
  suffix; last-pos clamped to length-1).
* ``FakeGCSHttp`` -- the part of the GCS JSON API the read path uses, answered at the level of
  ``aiohttp.ClientSession._request`` (objects.get metadata, objects.get ``alt=media`` with Range: 200 /
  206 + Content-Range / 416 / 404 / 400 for a malformed Range, objects.list with prefix / delimiter /
  includeTrailingDelimiter / maxResults / pageToken).  Bodies are delivered through a real
  ``aiohttp.StreamReader``.
* ``FakeS3Client`` -- boto3 S3 client surface: get_object(Bucket, Key, Range=) -> {'Body': stream},
  head_object, list_objects_v2 (Prefix, Delimiter, ContinuationToken, MaxKeys), errors as
  ``botocore.exceptions.ClientError`` carrying ``response['Error']['Code']`` (NoSuchKey, InvalidRange,
  InvalidArgument) and ``response['ResponseMetadata']['HTTPStatusCode']``.
* ``FakeBlobServiceClient`` -- azure.storage.blob.aio surface: get_blob_client().download_blob(offset=,
  length=) -> downloader with readall() / chunks(), exists(), get_blob_properties(); container
  walk_blobs(name_starts_with=, delimiter=).  Published rules: length requires offset (ValueError);
  a *given* offset >= blob size is HTTP 416 InvalidRange (HttpResponseError), also offset 0 on an empty
  blob; no offset on an empty blob is an empty download; missing blob is ResourceNotFoundError; a
  length reaching past the end is clamped.

The ``botocore`` / ``azure`` exception classes used are whatever ``botocore.exceptions`` /
``azure.core.exceptions`` resolve to in the running interpreter (inert stubs in the sandbox, the real
classes when the SDKs are installed) so that the repository's ``except`` clauses see the right types.
"""
import asyncio
import datetime
import io
import json
import urllib.parse

# ------------------------------------------------------------------------------------------------
# RFC 9110 byte ranges
# ------------------------------------------------------------------------------------------------

DIGITS = '0123456789'


def _all_digits(s):
    return len(s) > 0 and all(c in DIGITS for c in s)


def parse_range(header, size):
    """-> ('none',) | ('invalid',) | ('unsatisfiable',) | ('multi', [...]) | ('ok', first, last)  (last inclusive)"""
    if header is None:
        return ('none',)
    if not isinstance(header, str):
        return ('invalid',)
    eq = header.find('=')
    if eq == -1:
        return ('invalid',)
    unit = header[:eq].strip(' \t')
    if unit.lower() != 'bytes':
        return ('invalid',)  # unknown range unit: this fake rejects rather than ignores
    specs = [s.strip(' \t') for s in header[eq + 1 :].split(',')]
    specs = [s for s in specs if s != '']
    if not specs:
        return ('invalid',)
    parsed = []
    for s in specs:
        dash = s.find('-')
        if dash == -1:
            return ('invalid',)
        a, b = s[:dash], s[dash + 1 :]
        if a == '':
            if not _all_digits(b):
                return ('invalid',)
            parsed.append(('suffix', int(b)))
        else:
            if not _all_digits(a):
                return ('invalid',)
            if b == '':
                parsed.append(('int', int(a), None))
            else:
                if not _all_digits(b):
                    return ('invalid',)
                if int(b) < int(a):
                    return ('invalid',)
                parsed.append(('int', int(a), int(b)))
    resolved = []
    for p in parsed:
        if p[0] == 'suffix':
            n = p[1]
            if n == 0:
                continue  # a zero suffix-length is never satisfiable
            if size == 0:
                resolved.append((0, -1))  # satisfiable per RFC: selects the whole (empty) representation
            else:
                resolved.append((max(0, size - n), size - 1))
        else:
            first, last = p[1], p[2]
            if first >= size:
                continue
            if last is None or last >= size:
                last = size - 1
            resolved.append((first, last))
    if not resolved:
        return ('unsatisfiable',)
    if len(parsed) > 1:
        return ('multi', resolved)
    return ('ok', resolved[0][0], resolved[0][1])


class ObjectStore:
    """bucket -> key -> bytes"""

    def __init__(self):
        self.buckets = {}
        self.requests = []  # (service, op, detail) log for evidence / debugging

    def put(self, bucket, key, data):
        self.buckets.setdefault(bucket, {})[key] = bytes(data)

    def get(self, bucket, key):
        return self.buckets.get(bucket, {}).get(key)

    def keys(self, bucket, prefix=''):
        return sorted(k for k in self.buckets.get(bucket, {}) if k.startswith(prefix))


# ------------------------------------------------------------------------------------------------
# GCS over a fake aiohttp.ClientSession
# ------------------------------------------------------------------------------------------------


class _Proto:
    _reading_paused = False
    connected = True

    def pause_reading(self, *a, **k):
        pass

    def resume_reading(self, *a, **k):
        pass


class FakeHTTPResponse:
    """Quacks like the parts of aiohttp.ClientResponse the repository touches."""

    def __init__(self, method, url, req_headers, status, reason, headers, body, chunk=None):
        import aiohttp
        import multidict
        import yarl

        self.status = status
        self.reason = reason
        self.headers = multidict.CIMultiDictProxy(multidict.CIMultiDict(headers))
        self.history = ()
        self.method = method
        self.url = yarl.URL(url)
        self.request_info = aiohttp.RequestInfo(
            self.url, method, multidict.CIMultiDictProxy(multidict.CIMultiDict(req_headers or {})), self.url
        )
        self._body = body
        self.content = aiohttp.StreamReader(_Proto(), 2**16, loop=asyncio.get_running_loop())
        if chunk is None or chunk <= 0:
            if body:
                self.content.feed_data(body)
        else:
            for i in range(0, len(body), chunk):
                self.content.feed_data(body[i : i + chunk])
        self.content.feed_eof()
        self.closed = False

    async def read(self):
        return await self.content.read()

    def get_encoding(self):
        return 'utf-8'

    async def text(self, encoding=None, errors='strict'):
        return (await self.read()).decode(encoding or 'utf-8', errors)

    async def json(self, **kwargs):
        return json.loads(await self.read())

    async def release(self):
        self.closed = True

    def close(self):
        self.closed = True

    async def wait_for_close(self):
        self.closed = True

    def raise_for_status(self):
        import aiohttp

        if self.status >= 400:
            raise aiohttp.ClientResponseError(self.request_info, self.history, status=self.status, message=self.reason, headers=self.headers)

    async def __aenter__(self):
        return self

    async def __aexit__(self, *exc):
        await self.release()


class FakeGCSHttp:
    """Stands in for ``aiohttp.ClientSession`` inside ``hailtop.httpx.ClientSession`` (attribute
    ``client_session``): implements ``_request(method, url, **kwargs)`` for the GCS JSON API."""

    HOST = 'storage.googleapis.com'

    def __init__(self, store, body_chunk=None, yield_n=0):
        self.store = store
        self.body_chunk = body_chunk
        self.yield_n = yield_n
        self.closed = False
        self.n_requests = 0
        self.statuses = {}

    async def close(self):
        self.closed = True

    def _resp(self, method, url, req_headers, status, reason, headers=None, body=b''):
        self.statuses[status] = self.statuses.get(status, 0) + 1
        h = {'Content-Length': str(len(body))}
        h.update(headers or {})
        return FakeHTTPResponse(method, url, req_headers, status, reason, h, body, self.body_chunk)

    def _json(self, method, url, req_headers, status, reason, obj):
        return self._resp(method, url, req_headers, status, reason, {'Content-Type': 'application/json'}, json.dumps(obj).encode())

    def _error(self, method, url, req_headers, status, reason, message):
        return self._json(method, url, req_headers, status, reason, {'error': {'code': status, 'message': message}})

    async def _request(self, method, url, **kwargs):
        import yarl

        self.n_requests += 1
        for _ in range(self.yield_n):
            await asyncio.sleep(0)
        u = yarl.URL(str(url))
        params = dict(u.query)
        for k, v in (kwargs.get('params') or {}).items():
            params[str(k)] = str(v)
        req_headers = {}
        for k, v in (kwargs.get('headers') or {}).items():
            req_headers[str(k)] = str(v)
        hdr = {k.lower(): v for k, v in req_headers.items()}
        if u.host != self.HOST:
            return self._error(method, url, req_headers, 404, 'Not Found', f'unknown host {u.host}')
        segs = [urllib.parse.unquote(s) for s in u.raw_path.split('/')]
        # ['', 'storage', 'v1', 'b', bucket, 'o', name?]
        if len(segs) < 6 or segs[:4] != ['', 'storage', 'v1', 'b'] or segs[5] != 'o':
            return self._error(method, url, req_headers, 404, 'Not Found', 'unknown path')
        bucket = segs[4]
        if method != 'GET':
            return self._error(method, url, req_headers, 405, 'Method Not Allowed', 'fake supports GET only')
        if bucket not in self.store.buckets:
            return self._error(method, url, req_headers, 404, 'Not Found', 'The specified bucket does not exist.')
        if len(segs) == 6 or (len(segs) == 7 and segs[6] == ''):
            return self._list(method, url, req_headers, bucket, params)
        if len(segs) != 7:
            return self._error(method, url, req_headers, 404, 'Not Found', 'unknown path')
        name = segs[6]
        data = self.store.get(bucket, name)
        if data is None:
            return self._error(method, url, req_headers, 404, 'Not Found', f'No such object: {bucket}/{name}')
        if params.get('alt', 'json') != 'media':
            return self._json(method, url, req_headers, 200, 'OK', self._resource(bucket, name, data))
        r = parse_range(hdr.get('range'), len(data))
        self.store.requests.append(('gcs', 'get', hdr.get('range')))
        if r[0] == 'none' or r[0] == 'multi':
            return self._resp(method, url, req_headers, 200, 'OK', {'Content-Type': 'application/octet-stream'}, data)
        if r[0] == 'invalid':
            return self._error(method, url, req_headers, 400, 'Bad Request', 'Invalid Range header')
        if r[0] == 'unsatisfiable':
            return self._resp(
                method, url, req_headers, 416, 'Requested range not satisfiable',
                {'Content-Range': f'bytes */{len(data)}', 'Content-Type': 'text/plain'}, b'Requested range not satisfiable',
            )
        first, last = r[1], r[2]
        return self._resp(
            method, url, req_headers, 206, 'Partial Content',
            {'Content-Range': f'bytes {first}-{last}/{len(data)}', 'Content-Type': 'application/octet-stream'}, data[first : last + 1],
        )

    @staticmethod
    def _resource(bucket, name, data):
        return {
            'kind': 'storage#object', 'bucket': bucket, 'name': name, 'size': str(len(data)),
            'timeCreated': '2020-01-01T00:00:00.000Z', 'updated': '2020-01-01T00:00:00.000Z', 'storageClass': 'STANDARD',
        }

    def _list(self, method, url, req_headers, bucket, params):
        prefix = params.get('prefix', '')
        delimiter = params.get('delimiter')
        incl = params.get('includeTrailingDelimiter', 'false') == 'true'
        try:
            max_results = int(params.get('maxResults', '1000'))
        except ValueError:
            return self._error(method, url, req_headers, 400, 'Bad Request', 'maxResults')
        token = params.get('pageToken')
        items, prefixes = [], []
        seen_prefix = set()
        entries = []  # ordered (sortkey, kind, value)
        for k in self.store.keys(bucket, prefix):
            rest = k[len(prefix) :]
            if delimiter and delimiter in rest:
                i = rest.index(delimiter)
                p = prefix + rest[: i + len(delimiter)]
                is_exact_trailing = k == p
                if is_exact_trailing and incl:
                    entries.append((k, 'item', k))
                if p not in seen_prefix:
                    seen_prefix.add(p)
                    entries.append((p, 'prefix', p))
            else:
                entries.append((k, 'item', k))
        entries.sort(key=lambda e: (e[0], e[1]))
        start = 0
        if token is not None:
            try:
                start = int(token)
            except ValueError:
                return self._error(method, url, req_headers, 400, 'Bad Request', 'pageToken')
        page = entries[start : start + max_results]
        for _, kind, v in page:
            if kind == 'item':
                items.append(self._resource(bucket, v, self.store.get(bucket, v)))
            else:
                prefixes.append(v)
        out = {'kind': 'storage#objects'}
        if items:
            out['items'] = items
        if prefixes:
            out['prefixes'] = prefixes
        if start + max_results < len(entries):
            out['nextPageToken'] = str(start + max_results)
        return self._json(method, url, req_headers, 200, 'OK', out)


def make_gcs_fs(store, body_chunk=None, yield_n=0):
    """A real GoogleStorageAsyncFS -> GoogleStorageClient -> Session -> hailtop.httpx.ClientSession whose
    inner aiohttp session is the fake.  Must be called with a running loop."""
    import hailtop.httpx as hhttpx
    from hailtop.aiocloud.aiogoogle import GoogleStorageAsyncFS
    from hailtop.aiocloud.aiogoogle.client.storage_client import GoogleStorageClient
    from hailtop.aiocloud.common.credentials import AnonymousCloudCredentials
    from hailtop.aiocloud.common.session import Session

    fake = FakeGCSHttp(store, body_chunk, yield_n)
    hs = object.__new__(hhttpx.ClientSession)  # the constructor opens a TCP connector + reads deploy config
    hs.loop = asyncio.get_running_loop()
    hs.raise_for_status = True
    hs.client_session = fake
    session = Session(credentials=AnonymousCloudCredentials(), http_session=hs)
    # an explicit requester-pays project (what the copy tool passes) also avoids the spark-defaults.conf probe,
    # which goes through the stubbed pyspark in the sandbox
    client = GoogleStorageClient(session=session, gcs_requester_pays_configuration='verif-project')
    fs = GoogleStorageAsyncFS(storage_client=client, bucket_allow_list=[])
    return fs, fake


# ------------------------------------------------------------------------------------------------
# S3 (boto3 client surface)
# ------------------------------------------------------------------------------------------------


class FakeStreamingBody:
    """botocore.response.StreamingBody surface: read(amt=None), close(); may return short reads."""

    def __init__(self, data, max_read=None):
        self._bio = io.BytesIO(data)
        self._max_read = max_read
        self.closed = False

    def read(self, amt=None):
        if self.closed:
            raise ValueError('I/O operation on closed file.')
        if amt is None or amt < 0:
            return self._bio.read()
        if self._max_read is not None and amt > self._max_read:
            amt = self._max_read
        return self._bio.read(amt)

    def readable(self):
        return True

    def close(self):
        self.closed = True

    def tell(self):
        return self._bio.tell()


def _client_error_class():
    import botocore.exceptions

    return botocore.exceptions.ClientError


def _make_client_error(cls, code, message, status, op):
    e = cls()
    e.response = {
        'Error': {'Code': code, 'Message': message},
        'ResponseMetadata': {'HTTPStatusCode': status, 'RequestId': 'FAKE', 'HTTPHeaders': {}, 'RetryAttempts': 0},
    }
    e.operation_name = op
    e.args = (f'An error occurred ({code}) when calling the {op} operation: {message}',)
    return e


class FakeS3Client:
    def __init__(self, store, max_read=None, page_size=1000):
        self.store = store
        self.max_read = max_read
        self.page_size = page_size
        ce = _client_error_class()

        class _Exceptions:
            ClientError = ce
            NoSuchKey = type('NoSuchKey', (ce,), {})
            NoSuchBucket = type('NoSuchBucket', (ce,), {})

        self.exceptions = _Exceptions
        self.codes = {}

    def _err(self, cls, code, message, status, op):
        self.codes[code] = self.codes.get(code, 0) + 1
        return _make_client_error(cls, code, message, status, op)

    def _bucket(self, Bucket, op):
        if Bucket not in self.store.buckets:
            raise self._err(self.exceptions.NoSuchBucket, 'NoSuchBucket', 'The specified bucket does not exist', 404, op)
        return self.store.buckets[Bucket]

    def get_object(self, *, Bucket, Key, Range=None, **kwargs):
        self._bucket(Bucket, 'GetObject')
        data = self.store.get(Bucket, Key)
        if data is None:
            raise self._err(self.exceptions.NoSuchKey, 'NoSuchKey', 'The specified key does not exist.', 404, 'GetObject')
        self.store.requests.append(('s3', 'get', Range))
        r = parse_range(Range, len(data))
        if r[0] == 'invalid':
            raise self._err(self.exceptions.ClientError, 'InvalidArgument', 'Invalid Range header', 400, 'GetObject')
        if r[0] == 'unsatisfiable':
            raise self._err(self.exceptions.ClientError, 'InvalidRange', 'The requested range is not satisfiable', 416, 'GetObject')
        meta = {'HTTPStatusCode': 200, 'RequestId': 'FAKE', 'HTTPHeaders': {}, 'RetryAttempts': 0}
        if r[0] in ('none', 'multi'):
            body = data
            out = {}
        else:
            first, last = r[1], r[2]
            body = data[first : last + 1]
            out = {'ContentRange': f'bytes {first}-{last}/{len(data)}'}
            meta['HTTPStatusCode'] = 206
        out.update({
            'Body': FakeStreamingBody(body, self.max_read), 'ContentLength': len(body), 'AcceptRanges': 'bytes',
            'LastModified': datetime.datetime(2020, 1, 1, tzinfo=datetime.timezone.utc), 'ETag': '"fake"', 'ResponseMetadata': meta,
        })
        return out

    def head_object(self, *, Bucket, Key, **kwargs):
        self._bucket(Bucket, 'HeadObject')
        data = self.store.get(Bucket, Key)
        if data is None:
            # HEAD has no body: botocore reports code '404'
            raise self._err(self.exceptions.ClientError, '404', 'Not Found', 404, 'HeadObject')
        return {
            'ContentLength': len(data), 'LastModified': datetime.datetime(2020, 1, 1, tzinfo=datetime.timezone.utc), 'ETag': '"fake"',
            'ResponseMetadata': {'HTTPStatusCode': 200, 'RequestId': 'FAKE', 'HTTPHeaders': {}, 'RetryAttempts': 0},
        }

    def list_objects_v2(self, *, Bucket, Prefix='', Delimiter=None, ContinuationToken=None, MaxKeys=None, **kwargs):
        self._bucket(Bucket, 'ListObjectsV2')
        max_keys = min(MaxKeys if MaxKeys is not None else 1000, self.page_size)
        entries = []
        seen = set()
        for k in self.store.keys(Bucket, Prefix):
            rest = k[len(Prefix) :]
            if Delimiter and Delimiter in rest:
                p = Prefix + rest[: rest.index(Delimiter) + len(Delimiter)]
                if p not in seen:
                    seen.add(p)
                    entries.append((p, 'prefix'))
            else:
                entries.append((k, 'key'))
        entries.sort()
        start = int(ContinuationToken) if ContinuationToken is not None else 0
        page = entries[start : start + max_keys]
        out = {
            'Name': Bucket, 'Prefix': Prefix, 'MaxKeys': max_keys, 'KeyCount': len(page), 'IsTruncated': start + max_keys < len(entries),
            'ResponseMetadata': {'HTTPStatusCode': 200, 'RequestId': 'FAKE', 'HTTPHeaders': {}, 'RetryAttempts': 0},
        }
        contents = [
            {'Key': k, 'Size': len(self.store.get(Bucket, k)), 'ETag': '"fake"', 'StorageClass': 'STANDARD',
             'LastModified': datetime.datetime(2020, 1, 1, tzinfo=datetime.timezone.utc)}
            for k, kind in page if kind == 'key'
        ]
        prefixes = [{'Prefix': k} for k, kind in page if kind == 'prefix']
        if contents:
            out['Contents'] = contents
        if prefixes:
            out['CommonPrefixes'] = prefixes
        if Delimiter:
            out['Delimiter'] = Delimiter
        if out['IsTruncated']:
            out['NextContinuationToken'] = str(start + max_keys)
        return out


def make_s3_fs(store, thread_pool, max_read=None, page_size=1000):
    from hailtop.aiocloud.aioaws import S3AsyncFS

    try:
        fs = S3AsyncFS(thread_pool=thread_pool)  # calls boto3.client(...): an inert stub here, replaced below
    except Exception:  # the real boto3 without credentials/region may refuse
        fs = object.__new__(S3AsyncFS)
        fs._thread_pool = thread_pool
    client = FakeS3Client(store, max_read, page_size)
    fs._s3 = client
    return fs, client


# ------------------------------------------------------------------------------------------------
# Azure Blob (azure.storage.blob.aio surface)
# ------------------------------------------------------------------------------------------------


def _azure_exc():
    import azure.core.exceptions as ace

    return ace


def _make_azure_error(cls, status, code, message):
    e = cls()
    e.status_code = status
    e.error_code = code
    e.reason = message
    e.message = message
    e.response = None
    e.args = (message,)
    return e


class FakeBlobProperties:
    def __init__(self, name, container, size):
        self.name = name
        self.container = container
        self.size = size
        self.creation_time = datetime.datetime(2020, 1, 1, tzinfo=datetime.timezone.utc)
        self.last_modified = datetime.datetime(2020, 1, 1, tzinfo=datetime.timezone.utc)
        self.metadata = {}

    def __getitem__(self, k):
        return getattr(self, k)


class FakeBlobPrefix:
    def __init__(self, name):
        self.name = name
        self.prefix = name


class FakeDownloader:
    """StorageStreamDownloader surface: size, readall(), chunks()."""

    def __init__(self, data, chunk, yield_n=0):
        self._data = data
        self._chunk = chunk if chunk and chunk > 0 else 4 * 1024 * 1024
        self._yield_n = yield_n
        self.size = len(data)

    async def readall(self):
        for _ in range(self._yield_n):
            await asyncio.sleep(0)
        return self._data

    def chunks(self):
        data, chunk, yn = self._data, self._chunk, self._yield_n

        async def it():
            for i in range(0, len(data), chunk):
                for _ in range(yn):
                    await asyncio.sleep(0)
                yield data[i : i + chunk]

        return it()


class FakeBlobClient:
    def __init__(self, svc, container, name):
        self._svc = svc
        self.container_name = container
        self.blob_name = name

    def _data(self):
        return self._svc.store.get(self._svc.bucket(self.container_name), self.blob_name)

    async def exists(self, **kwargs):
        return self._data() is not None

    async def get_blob_properties(self, **kwargs):
        data = self._data()
        if data is None:
            ace = _azure_exc()
            raise _make_azure_error(ace.ResourceNotFoundError, 404, 'BlobNotFound', 'The specified blob does not exist.')
        return FakeBlobProperties(self.blob_name, self.container_name, len(data))

    async def download_blob(self, offset=None, length=None, **kwargs):
        ace = _azure_exc()
        self._svc.store.requests.append(('azure', 'download_blob', (offset, length)))
        self._svc.n_downloads += 1
        if length is not None and offset is None:
            raise ValueError('Offset value must not be None if length is set.')
        if offset is not None and (not isinstance(offset, int) or offset < 0):
            raise ValueError('offset must be a non-negative integer')
        if length is not None and (not isinstance(length, int) or length < 0):
            raise ValueError('length must be a non-negative integer')
        data = self._data()
        if data is None:
            raise _make_azure_error(ace.ResourceNotFoundError, 404, 'BlobNotFound', 'The specified blob does not exist.')
        if offset is None:
            return FakeDownloader(data, self._svc.chunk, self._svc.yield_n)
        if offset >= len(data):
            self._svc.n_416 += 1
            raise _make_azure_error(ace.HttpResponseError, 416, 'InvalidRange', 'The range specified is invalid for the current size of the resource.')
        end = len(data) if length is None else min(len(data), offset + length)
        return FakeDownloader(data[offset:end], self._svc.chunk, self._svc.yield_n)


class FakeContainerClient:
    def __init__(self, svc, container):
        self._svc = svc
        self.container_name = container

    def walk_blobs(self, name_starts_with=None, include=None, delimiter='/', **kwargs):
        svc, container = self._svc, self.container_name
        prefix = name_starts_with or ''

        async def it():
            seen = set()
            out = []
            for k in svc.store.keys(svc.bucket(container), prefix):
                rest = k[len(prefix) :]
                if delimiter and delimiter in rest:
                    p = prefix + rest[: rest.index(delimiter) + len(delimiter)]
                    if p not in seen:
                        seen.add(p)
                        out.append((p, FakeBlobPrefix(p)))
                else:
                    out.append((k, FakeBlobProperties(k, container, len(svc.store.get(svc.bucket(container), k)))))
            out.sort(key=lambda e: e[0])
            for _, v in out:
                yield v

        return it()

    def list_blobs(self, name_starts_with=None, include=None, **kwargs):
        svc, container = self._svc, self.container_name
        prefix = name_starts_with or ''

        async def it():
            for k in svc.store.keys(svc.bucket(container), prefix):
                yield FakeBlobProperties(k, container, len(svc.store.get(svc.bucket(container), k)))

        return it()


class FakeBlobServiceClient:
    def __init__(self, store, account, chunk=None, yield_n=0):
        self.store = store
        self.account = account
        self.chunk = chunk
        self.yield_n = yield_n
        self.n_downloads = 0
        self.n_416 = 0

    def bucket(self, container):
        return f'{self.account}/{container}'

    def get_blob_client(self, container, blob, **kwargs):
        return FakeBlobClient(self, container, blob)

    def get_container_client(self, container, **kwargs):
        return FakeContainerClient(self, container)

    async def close(self):
        pass


class _FakeAzureCredentials:
    credential = object()

    async def close(self):
        pass


def make_azure_fs(store, account, container, chunk=None, yield_n=0):
    """A real AzureAsyncFS whose BlobServiceClient for (account, container, no SAS token) is the fake."""
    from hailtop.aiocloud.aioazure import AzureAsyncFS

    fs = AzureAsyncFS(credentials=_FakeAzureCredentials())
    svc = FakeBlobServiceClient(store, account, chunk, yield_n)
    fs._blob_service_clients[(account, container, None)] = svc
    store.buckets.setdefault(svc.bucket(container), {})
    return fs, svc
